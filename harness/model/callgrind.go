package model

import (
	"fmt"
	"strconv"
	"strings"
)

// A parser for the callgrind profile format as described in the Valgrind
// manual (name compression, subposition compression). Positions are
// "instr line"; a relative or "*" subposition refers to the position of the
// previous cost line (the target position of a calls= line does not move it).

type CGCall struct {
	File, Fn   string
	Addr       uint64
	Line       int64
	Count      int64
	Cost       int64
	CallerAddr uint64
	CallerLine int64
	Relative   bool // the target address was given relative to the previous position
	// AltAddr: the target address when a relative form is read against the cost line of the function printed
	// BEFORE the calling one (what a writer gets that forgets the caller's own cost line)
	AltAddr uint64
}

type CGRecord struct {
	Ob, File, Fn string
	Addr         uint64
	Line         int64
	Cost         int64
	Calls        []CGCall
}

type CGFile struct {
	Events  string
	Records []CGRecord
}

type cgNames struct {
	kind string
	byID map[int]string
}

func (n *cgNames) resolve(s string) (string, error) {
	s = strings.TrimSpace(s)
	if s == "" {
		return "", nil
	}
	if !strings.HasPrefix(s, "(") {
		return s, nil // uncompressed name
	}
	end := strings.Index(s, ")")
	if end < 0 {
		return "", fmt.Errorf("%s: malformed compressed name %q", n.kind, s)
	}
	id, err := strconv.Atoi(s[1:end])
	if err != nil {
		return "", fmt.Errorf("%s: malformed id in %q", n.kind, s)
	}
	rest := s[end+1:]
	if rest == "" {
		name, ok := n.byID[id]
		if !ok {
			return "", fmt.Errorf("%s: back-reference (%d) used before it was defined", n.kind, id)
		}
		return name, nil
	}
	name := strings.TrimPrefix(rest, " ")
	if old, ok := n.byID[id]; ok && old != name {
		return "", fmt.Errorf("%s: id (%d) defined twice: %q and %q", n.kind, id, old, name)
	}
	n.byID[id] = name
	return name, nil
}

func cgSub(tok string, prev int64, hexOK bool) (int64, error) {
	switch {
	case tok == "*":
		return prev, nil
	case strings.HasPrefix(tok, "+"):
		d, err := strconv.ParseInt(tok[1:], 10, 64)
		return prev + d, err
	case strings.HasPrefix(tok, "-"):
		d, err := strconv.ParseInt(tok[1:], 10, 64)
		return prev - d, err
	case strings.HasPrefix(tok, "0x"):
		u, err := strconv.ParseUint(tok[2:], 16, 64)
		return int64(u), err
	}
	u, err := strconv.ParseUint(tok, 10, 64)
	return int64(u), err
}

// ParseCallgrind parses callgrind output with positions "instr line".
func ParseCallgrind(src string) (*CGFile, error) {
	f := &CGFile{}
	obs := &cgNames{"object", map[int]string{}}
	files := &cgNames{"file", map[int]string{}}
	fns := &cgNames{"function", map[int]string{}}
	var curOb, curFile, curFn string
	var callFile, callFn string
	var prevAddr, prevLine int64
	var nodeAddr, prevNodeAddr int64 // address of the current / the previous function's own cost line
	var pending *CGCall
	var rec *CGRecord
	sawPositions := false
	lines := strings.Split(src, "\n")
	for ln, line := range lines {
		bad := func(format string, a ...any) error {
			return fmt.Errorf("callgrind line %d %q: %s", ln+1, line, fmt.Sprintf(format, a...))
		}
		if strings.TrimSpace(line) == "" {
			continue
		}
		if strings.HasPrefix(line, "positions:") {
			if strings.TrimSpace(strings.TrimPrefix(line, "positions:")) != "instr line" {
				return nil, bad("unexpected positions")
			}
			sawPositions = true
			continue
		}
		if strings.HasPrefix(line, "events:") {
			f.Events = strings.TrimSpace(strings.TrimPrefix(line, "events:"))
			continue
		}
		if i := strings.Index(line, "="); i > 0 && i <= 5 && isAlpha(line[:i]) {
			key, val := line[:i], line[i+1:]
			var err error
			switch key {
			case "ob":
				curOb, err = obs.resolve(val)
			case "fl", "fi", "fe":
				curFile, err = files.resolve(val)
				callFile = curFile
			case "fn":
				curFn, err = fns.resolve(val)
				f.Records = append(f.Records, CGRecord{Ob: curOb, File: curFile, Fn: curFn})
				rec = nil
			case "cob":
				_, err = obs.resolve(val)
			case "cfl", "cfi":
				callFile, err = files.resolve(val)
			case "cfn":
				callFn, err = fns.resolve(val)
			case "calls":
				t := strings.Fields(val)
				if len(t) != 3 {
					return nil, bad("calls= needs a count and two target subpositions")
				}
				cnt, err1 := strconv.ParseInt(t[0], 10, 64)
				a, err2 := cgSub(t[1], prevAddr, true)
				l, err3 := cgSub(t[2], prevLine, false)
				if err1 != nil || err2 != nil || err3 != nil {
					return nil, bad("bad calls line")
				}
				alt, _ := cgSub(t[1], prevNodeAddr, true)
				pending = &CGCall{File: callFile, Fn: callFn, Addr: uint64(a), Line: l, Count: cnt, Relative: t[1] == "*" || strings.HasPrefix(t[1], "+") || strings.HasPrefix(t[1], "-"), AltAddr: uint64(alt)}
			default:
				return nil, bad("unknown key %q", key)
			}
			if err != nil {
				return nil, bad("%v", err)
			}
			continue
		}
		// cost line
		if !sawPositions {
			return nil, bad("cost line before the positions header")
		}
		t := strings.Fields(line)
		if len(t) != 3 {
			return nil, bad("cost line needs two subpositions and one cost")
		}
		a, err1 := cgSub(t[0], prevAddr, true)
		l, err2 := cgSub(t[1], prevLine, false)
		cost, err3 := strconv.ParseInt(t[2], 10, 64)
		if err1 != nil || err2 != nil || err3 != nil {
			return nil, bad("bad cost line")
		}
		if len(f.Records) == 0 {
			return nil, bad("cost line outside a function")
		}
		cur := &f.Records[len(f.Records)-1]
		if pending != nil {
			pending.Cost = cost
			pending.CallerAddr, pending.CallerLine = uint64(a), l
			cur.Calls = append(cur.Calls, *pending)
			pending = nil
		} else {
			if rec != nil {
				// another cost line of the same function: a new record
				f.Records = append(f.Records, CGRecord{Ob: cur.Ob, File: cur.File, Fn: cur.Fn})
				cur = &f.Records[len(f.Records)-1]
			}
			cur.Addr, cur.Line, cur.Cost = uint64(a), l, cost
			rec = cur
			prevNodeAddr, nodeAddr = nodeAddr, a
		}
		prevAddr, prevLine = a, l
	}
	if pending != nil {
		return nil, fmt.Errorf("callgrind: calls= line without a following cost line")
	}
	return f, nil
}

func isAlpha(s string) bool {
	for _, c := range s {
		if c < 'a' || c > 'z' {
			return false
		}
	}
	return s != ""
}
