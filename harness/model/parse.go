package model

import (
	"fmt"
	"regexp"
	"strconv"
	"strings"
)

// Independent parsers for pprof's text outputs.

var numRe = regexp.MustCompile(`^(-?[0-9]+(?:\.[0-9]+)?(?:e[+-]?[0-9]+)?)(.*)$`)

// ParseValue splits "12.50MB" into 12.5 and "MB".
func ParseValue(s string) (float64, string, error) {
	m := numRe.FindStringSubmatch(s)
	if m == nil {
		return 0, "", fmt.Errorf("not a value: %q", s)
	}
	f, err := strconv.ParseFloat(m[1], 64)
	return f, m[2], err
}

// intValue parses a value that must be integral (lossless units).
func intValue(s string) (int64, error) {
	f, _, err := ParseValue(s)
	if err != nil {
		return 0, err
	}
	if f != float64(int64(f)) {
		return 0, fmt.Errorf("non-integral value %q", s)
	}
	return int64(f), nil
}

// Legend holds what the header lines say.
type Legend struct {
	Lines        []string
	Shown, Total float64
	ShownStr     string
	TotalStr     string
	Pct          string
	HasShowing   bool
	DroppedNodes int
	DroppedEdges int
	TopN, TopOf  int
	HasTop       bool
}

var showingRe = regexp.MustCompile(`^Showing nodes accounting for (\S+), (\S+) of (\S+) total$`)
var droppedRe = regexp.MustCompile(`^Dropped (\d+) (node|edge)s? \((cum|freq) <= (\S+)\)$`)
var topRe = regexp.MustCompile(`^Showing top (\d+) nodes out of (\d+)$`)

// ParseLegendLine interprets one header line.
func ParseLegendLine(l string, lg *Legend) {
	lg.Lines = append(lg.Lines, l)
	if m := showingRe.FindStringSubmatch(l); m != nil {
		lg.HasShowing = true
		lg.ShownStr, lg.Pct, lg.TotalStr = m[1], m[2], m[3]
		lg.Shown, _, _ = ParseValue(m[1])
		lg.Total, _, _ = ParseValue(m[3])
	}
	if m := droppedRe.FindStringSubmatch(l); m != nil {
		n, _ := strconv.Atoi(m[1])
		if m[2] == "node" {
			lg.DroppedNodes = n
		} else {
			lg.DroppedEdges = n
		}
	}
	if m := topRe.FindStringSubmatch(l); m != nil {
		lg.HasTop = true
		lg.TopN, _ = strconv.Atoi(m[1])
		lg.TopOf, _ = strconv.Atoi(m[2])
	}
}

func stripInline(name string) (string, string) {
	for _, suf := range []string{" (inline)", " (partial-inline)"} {
		if strings.HasSuffix(name, suf) {
			return strings.TrimSuffix(name, suf), strings.TrimSpace(suf)
		}
	}
	return name, ""
}

// TopRow is a parsed line of -top / -text.
type TopRow struct {
	Row
	FlatS, CumS       string
	FlatPct, SumPct   string
	CumPct            string
	Inline            string
	FlatF, CumF       float64
	FlatUnit, CumUnit string
}

// ParseTop parses the text report. Rows are in output order.
func ParseTop(out string) (*Legend, []TopRow, error) {
	lines := strings.Split(strings.TrimRight(out, "\n"), "\n")
	lg := &Legend{}
	i := 0
	for ; i < len(lines); i++ {
		if strings.HasPrefix(strings.TrimSpace(lines[i]), "flat  flat%") {
			i++
			break
		}
		ParseLegendLine(lines[i], lg)
	}
	var rows []TopRow
	for ; i < len(lines); i++ {
		l := lines[i]
		f := strings.Fields(l)
		if len(f) < 5 {
			return lg, rows, fmt.Errorf("bad top line %q", l)
		}
		// name is everything after the 5th field
		rest := l
		for k := 0; k < 5; k++ {
			rest = strings.TrimLeft(rest, " ")
			rest = rest[len(f[k]):]
		}
		name := strings.TrimPrefix(rest, "  ")
		name, inl := stripInline(name)
		r := TopRow{FlatS: f[0], FlatPct: f[1], SumPct: f[2], CumS: f[3], CumPct: f[4], Inline: inl}
		r.Name = name
		var err error
		if r.FlatF, r.FlatUnit, err = ParseValue(f[0]); err != nil {
			return lg, rows, err
		}
		if r.CumF, r.CumUnit, err = ParseValue(f[3]); err != nil {
			return lg, rows, err
		}
		r.Flat, r.Cum = int64(r.FlatF), int64(r.CumF)
		rows = append(rows, r)
	}
	return lg, rows, nil
}

// TreeOut is the parsed -tree / -peek output.
type TreeOut struct {
	Legend *Legend
	Rows   []TopRow
	// Edges as printed: once in the callee's block (In) and once in the caller's block (Out).
	In, Out []EdgeRow
}

const treeSep = "----------------------------------------------------------+-------------"

// ParseTree parses the tree report.
func ParseTree(out string) (*TreeOut, error) {
	t := &TreeOut{Legend: &Legend{}}
	lines := strings.Split(strings.TrimRight(out, "\n"), "\n")
	i := 0
	for ; i < len(lines); i++ {
		if lines[i] == treeSep {
			break
		}
		ParseLegendLine(lines[i], t.Legend)
	}
	// skip separator, legend, separator
	i += 2
	var block []string
	flush := func() error {
		if len(block) == 0 {
			return nil
		}
		nodeIdx := -1
		for k, l := range block {
			if strings.Contains(l, "                | ") && !strings.HasPrefix(l, "                              ") {
				nodeIdx = k
			}
		}
		if nodeIdx < 0 {
			return fmt.Errorf("tree block without node line: %q", block)
		}
		nl := block[nodeIdx]
		p := strings.SplitN(nl, "                | ", 2)
		f := strings.Fields(p[0])
		if len(f) != 5 {
			return fmt.Errorf("bad tree node line %q", nl)
		}
		r := TopRow{FlatS: f[0], FlatPct: f[1], SumPct: f[2], CumS: f[3], CumPct: f[4]}
		r.Name = p[1]
		var err error
		if r.FlatF, r.FlatUnit, err = ParseValue(f[0]); err != nil {
			return err
		}
		if r.CumF, r.CumUnit, err = ParseValue(f[3]); err != nil {
			return err
		}
		r.Flat, r.Cum = int64(r.FlatF), int64(r.CumF)
		t.Rows = append(t.Rows, r)
		for k, l := range block {
			if k == nodeIdx {
				continue
			}
			p := strings.SplitN(l, " |   ", 2)
			if len(p) != 2 {
				return fmt.Errorf("bad tree edge line %q", l)
			}
			f := strings.Fields(p[0])
			if len(f) != 2 {
				return fmt.Errorf("bad tree edge line %q", l)
			}
			w, _, err := ParseValue(f[0])
			if err != nil {
				return err
			}
			other, _ := stripInline(p[1])
			if k < nodeIdx {
				t.In = append(t.In, EdgeRow{other, r.Name, int64(w)})
			} else {
				t.Out = append(t.Out, EdgeRow{r.Name, other, int64(w)})
			}
		}
		return nil
	}
	for i++; i < len(lines); i++ {
		if lines[i] == treeSep {
			if err := flush(); err != nil {
				return t, err
			}
			block = nil
			continue
		}
		block = append(block, lines[i])
	}
	if err := flush(); err != nil {
		return t, err
	}
	return t, nil
}

const traceSep = "-----------+-------------------------------------------------------"

// TraceOut is one parsed sample of -traces.
type TraceOut struct {
	Labels []string
	Value  int64
	ValueS string
	Names  []string
	Inline []bool
}

// ParseTraces parses -traces output.
func ParseTraces(out string) ([]string, []TraceOut, error) {
	lines := strings.Split(strings.TrimRight(out, "\n"), "\n")
	var header []string
	i := 0
	for ; i < len(lines); i++ {
		if lines[i] == traceSep {
			break
		}
		header = append(header, lines[i])
	}
	var res []TraceOut
	var cur *TraceOut
	inStack := false
	for ; i < len(lines); i++ {
		l := lines[i]
		if l == traceSep {
			if cur != nil {
				res = append(res, *cur)
			}
			cur = &TraceOut{}
			inStack = false
			continue
		}
		if cur == nil {
			return header, res, fmt.Errorf("trace line outside block: %q", l)
		}
		if len(l) < 13 {
			return header, res, fmt.Errorf("short trace line %q", l)
		}
		left, right := l[:10], l[13:]
		if !inStack && len(l) > 11 && l[10] == ':' {
			cur.Labels = append(cur.Labels, strings.TrimSpace(left)+"="+strings.TrimPrefix(l[11:], "  "))
			continue
		}
		name, inl := stripInline(right)
		if !inStack {
			v, _, err := ParseValue(strings.TrimSpace(left))
			if err != nil {
				return header, res, fmt.Errorf("bad trace value line %q: %v", l, err)
			}
			cur.Value = int64(v)
			cur.ValueS = strings.TrimSpace(left)
			inStack = true
		}
		cur.Names = append(cur.Names, name)
		cur.Inline = append(cur.Inline, inl != "")
	}
	return header, res, nil
}
