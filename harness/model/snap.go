// Package model holds the reference models and structural snapshots. Nothing
// here calls into pprof's own logic: profiles are walked through exported
// fields only.
package model

import (
	"fmt"
	"sort"
	"strings"

	"github.com/google/pprof/profile"
)

// SnapOpts controls the normalisations a snapshot applies.
type SnapOpts struct {
	// Norm applies the proto3-forced normalisation: string label values ""
	// vanish, numeric values 0 with unit "" vanish, a key whose values all
	// vanish vanishes.
	Norm bool
}

func q(s string) string { return fmt.Sprintf("%q", s) }

// Snap renders every exported field of p (ids, orders, frame order, values,
// labels, units, lines, flags, header) as text; equality of snapshots is
// structural equality. A missing unit list is equivalent to all-"" units and
// a nil PeriodType to an empty one (both stated in the property).
func Snap(p *profile.Profile, o SnapOpts) string {
	var b strings.Builder
	fmt.Fprintf(&b, "types:")
	for _, st := range p.SampleType {
		if st == nil {
			b.WriteString(" <nil>")
			continue
		}
		fmt.Fprintf(&b, " %s/%s", q(st.Type), q(st.Unit))
	}
	b.WriteString("\n")
	pt := profile.ValueType{}
	if p.PeriodType != nil {
		pt = *p.PeriodType
	}
	fmt.Fprintf(&b, "period:%s/%s %d time:%d dur:%d dst:%s doc:%s drop:%s keep:%s\n", q(pt.Type), q(pt.Unit), p.Period, p.TimeNanos, p.DurationNanos,
		q(p.DefaultSampleType), q(p.DocURL), q(p.DropFrames), q(p.KeepFrames))
	for _, c := range p.Comments {
		fmt.Fprintf(&b, "comment:%s\n", q(c))
	}
	for _, m := range p.Mapping {
		fmt.Fprintf(&b, "M %d %x-%x @%x %s %s %v%v%v%v\n", m.ID, m.Start, m.Limit, m.Offset, q(m.File), q(m.BuildID), m.HasFunctions, m.HasFilenames, m.HasLineNumbers, m.HasInlineFrames)
	}
	for _, f := range p.Function {
		fmt.Fprintf(&b, "F %d %s %s %s %d\n", f.ID, q(f.Name), q(f.SystemName), q(f.Filename), f.StartLine)
	}
	for _, l := range p.Location {
		mid := uint64(0)
		if l.Mapping != nil {
			mid = l.Mapping.ID
		}
		fmt.Fprintf(&b, "L %d m%d %x folded=%v", l.ID, mid, l.Address, l.IsFolded)
		for _, ln := range l.Line {
			fid := uint64(0)
			if ln.Function != nil {
				fid = ln.Function.ID
			}
			fmt.Fprintf(&b, " [f%d %d:%d]", fid, ln.Line, ln.Column)
		}
		b.WriteString("\n")
	}
	for _, s := range p.Sample {
		b.WriteString("S")
		for _, l := range s.Location {
			if l == nil {
				b.WriteString(" <nil>")
			} else {
				fmt.Fprintf(&b, " %d", l.ID)
			}
		}
		fmt.Fprintf(&b, " v=%v %s\n", s.Value, LabelString(s, o.Norm))
	}
	return b.String()
}

// LabelString is the canonical rendering of a sample's labels.
func LabelString(s *profile.Sample, norm bool) string {
	var parts []string
	keys := make([]string, 0, len(s.Label))
	for k := range s.Label {
		keys = append(keys, k)
	}
	sort.Strings(keys)
	for _, k := range keys {
		var vs []string
		for _, v := range s.Label[k] {
			if norm && v == "" {
				continue
			}
			vs = append(vs, q(v))
		}
		if norm && len(vs) == 0 {
			continue
		}
		parts = append(parts, fmt.Sprintf("s%s=[%s]", q(k), strings.Join(vs, ",")))
	}
	keys = keys[:0]
	for k := range s.NumLabel {
		keys = append(keys, k)
	}
	sort.Strings(keys)
	for _, k := range keys {
		units := s.NumUnit[k]
		var vs []string
		for i, v := range s.NumLabel[k] {
			u := ""
			if i < len(units) {
				u = units[i]
			}
			if norm && v == 0 && u == "" {
				continue
			}
			vs = append(vs, fmt.Sprintf("%d%s", v, q(u)))
		}
		if norm && len(vs) == 0 {
			continue
		}
		parts = append(parts, fmt.Sprintf("n%s=[%s]", q(k), strings.Join(vs, ",")))
	}
	return strings.Join(parts, " ")
}

// Valid is the validity predicate V written from the C02 statement: every
// sample has exactly one value per sample type and every location, function
// and mapping it references exists exactly once in its table with a non-zero
// id; ids are unique.
func Valid(p *profile.Profile) error {
	if p == nil {
		return fmt.Errorf("nil profile")
	}
	for i, st := range p.SampleType {
		if st == nil {
			return fmt.Errorf("sample type %d is nil", i)
		}
	}
	mcount := map[*profile.Mapping]int{}
	mids := map[uint64]int{}
	for _, m := range p.Mapping {
		if m == nil {
			return fmt.Errorf("nil mapping in table")
		}
		if m.ID == 0 {
			return fmt.Errorf("mapping with id 0")
		}
		mcount[m]++
		mids[m.ID]++
		if mids[m.ID] > 1 {
			return fmt.Errorf("duplicate mapping id %d", m.ID)
		}
	}
	fcount := map[*profile.Function]int{}
	fids := map[uint64]int{}
	for _, f := range p.Function {
		if f == nil {
			return fmt.Errorf("nil function in table")
		}
		if f.ID == 0 {
			return fmt.Errorf("function with id 0")
		}
		fcount[f]++
		fids[f.ID]++
		if fids[f.ID] > 1 {
			return fmt.Errorf("duplicate function id %d", f.ID)
		}
	}
	lcount := map[*profile.Location]int{}
	lids := map[uint64]int{}
	for _, l := range p.Location {
		if l == nil {
			return fmt.Errorf("nil location in table")
		}
		if l.ID == 0 {
			return fmt.Errorf("location with id 0")
		}
		lcount[l]++
		lids[l.ID]++
		if lids[l.ID] > 1 {
			return fmt.Errorf("duplicate location id %d", l.ID)
		}
		if l.Mapping != nil && mcount[l.Mapping] != 1 {
			return fmt.Errorf("location %d references a mapping present %d times in the table", l.ID, mcount[l.Mapping])
		}
		for _, ln := range l.Line {
			if ln.Function == nil {
				return fmt.Errorf("location %d has a line without function", l.ID)
			}
			if fcount[ln.Function] != 1 {
				return fmt.Errorf("location %d references a function present %d times in the table", l.ID, fcount[ln.Function])
			}
		}
	}
	for i, s := range p.Sample {
		if s == nil {
			return fmt.Errorf("nil sample %d", i)
		}
		if len(s.Value) != len(p.SampleType) {
			return fmt.Errorf("sample %d has %d values for %d types", i, len(s.Value), len(p.SampleType))
		}
		for _, l := range s.Location {
			if l == nil {
				return fmt.Errorf("sample %d has nil location", i)
			}
			if lcount[l] != 1 {
				return fmt.Errorf("sample %d references a location present %d times in the table", i, lcount[l])
			}
		}
	}
	return nil
}
