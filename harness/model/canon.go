package model

import (
	"fmt"
	"sort"
	"strings"

	"github.com/google/pprof/profile"
)

// Canonical, id-free description of samples: what the frames ARE.

// BinKey renders the identity of a mapping. coarse = the documented merge
// identity (build id if present else file, offset, size rounded up to 4 KiB);
// fine = all of build id, file, offset, exact size.
func BinKey(m *profile.Mapping, coarse bool) string {
	if m == nil {
		return "nomap"
	}
	size := m.Limit - m.Start
	if coarse {
		size = (size + 0xfff) &^ 0xfff
		id := m.BuildID
		if id == "" {
			id = m.File
		}
		return fmt.Sprintf("bin(%q,+%x,%x)", id, m.Offset, size)
	}
	return fmt.Sprintf("bin(%q,%q,+%x,%x)", m.BuildID, m.File, m.Offset, size)
}

// FrameKey renders one location: binary identity, mapping-relative address,
// folded flag and every inline line with all function attributes.
func FrameKey(l *profile.Location, coarse bool) string {
	var b strings.Builder
	addr := l.Address
	if l.Mapping != nil {
		addr -= l.Mapping.Start
	}
	fmt.Fprintf(&b, "%s@%x", BinKey(l.Mapping, coarse), addr)
	if l.IsFolded {
		b.WriteString("F")
	}
	for _, ln := range l.Line {
		f := ln.Function
		if f == nil {
			fmt.Fprintf(&b, "[nil %d:%d]", ln.Line, ln.Column)
			continue
		}
		fmt.Fprintf(&b, "[%q %q %q s%d %d:%d]", f.Name, f.SystemName, f.Filename, f.StartLine, ln.Line, ln.Column)
	}
	return b.String()
}

// StackKey renders a sample's stack (leaf first) and label set.
func StackKey(s *profile.Sample, coarse bool) string {
	parts := make([]string, 0, len(s.Location)+1)
	for _, l := range s.Location {
		parts = append(parts, FrameKey(l, coarse))
	}
	return strings.Join(parts, " <- ") + " {" + LabelString(s, false) + "}"
}

// Canon is the multiset {stack+labels -> value vector}.
type Canon map[string][]int64

// CanonOf sums the value vectors of samples per key.
func CanonOf(p *profile.Profile, coarse bool) Canon {
	c := Canon{}
	for _, s := range p.Sample {
		c.Add(StackKey(s, coarse), s.Value, 1)
	}
	return c
}

func (c Canon) Add(k string, v []int64, mul int64) {
	cur := c[k]
	if cur == nil {
		cur = make([]int64, len(v))
	}
	for i := range v {
		if i < len(cur) {
			cur[i] += mul * v[i]
		}
	}
	c[k] = cur
}

// DropZero removes all-zero entries.
func (c Canon) DropZero() Canon {
	for k, v := range c {
		z := true
		for _, x := range v {
			if x != 0 {
				z = false
			}
		}
		if z {
			delete(c, k)
		}
	}
	return c
}

// Diff describes the first differences between two canons.
func (c Canon) Diff(o Canon) string {
	var keys []string
	for k := range c {
		keys = append(keys, k)
	}
	for k := range o {
		if _, ok := c[k]; !ok {
			keys = append(keys, k)
		}
	}
	sort.Strings(keys)
	var out []string
	for _, k := range keys {
		a, b := c[k], o[k]
		if fmt.Sprint(a) != fmt.Sprint(b) {
			out = append(out, fmt.Sprintf("  %s: want %v got %v", k, a, b))
			if len(out) >= 4 {
				break
			}
		}
	}
	return strings.Join(out, "\n")
}

func (c Canon) Equal(o Canon) bool { return c.Diff(o) == "" }
