package model

import (
	"fmt"
	"strings"
)

// A small parser for the Graphviz DOT language (grammar from the Graphviz
// documentation; string lexing follows Graphviz's scanner: inside a quoted
// string \" is a quote, \\ is consumed as a pair, the string ends at the
// first other ").

type DotTok struct {
	Kind string // id, qstr, html, punct, eof
	Text string
	Pos  int
}

type DotNode struct {
	ID    string
	Attrs map[string]string
	Order int
}

type DotEdge struct {
	From, To string
	Attrs    map[string]string
}

type DotGraph struct {
	Name     string
	Directed bool
	Nodes    map[string]*DotNode // declared by a node statement
	NodeSeq  []string
	Edges    []DotEdge
	// Mentioned lists every node id that appears anywhere (also as edge endpoint).
	Mentioned map[string]bool
}

func dotLex(s string) ([]DotTok, error) {
	var toks []DotTok
	i := 0
	isIDStart := func(c byte) bool {
		return c == '_' || (c >= 'a' && c <= 'z') || (c >= 'A' && c <= 'Z') || c >= 0x80
	}
	isIDChar := func(c byte) bool { return isIDStart(c) || (c >= '0' && c <= '9') }
	for i < len(s) {
		c := s[i]
		switch {
		case c == ' ' || c == '\t' || c == '\n' || c == '\r':
			i++
		case c == '/' && i+1 < len(s) && s[i+1] == '/':
			for i < len(s) && s[i] != '\n' {
				i++
			}
		case c == '/' && i+1 < len(s) && s[i+1] == '*':
			j := strings.Index(s[i+2:], "*/")
			if j < 0 {
				return nil, fmt.Errorf("offset %d: unterminated comment", i)
			}
			i += j + 4
		case c == '#' && (i == 0 || s[i-1] == '\n'):
			for i < len(s) && s[i] != '\n' {
				i++
			}
		case c == '"':
			start := i
			i++
			var b strings.Builder
			closed := false
			for i < len(s) {
				if s[i] == '\\' && i+1 < len(s) && s[i+1] == '"' {
					b.WriteByte('"')
					i += 2
					continue
				}
				if s[i] == '\\' && i+1 < len(s) && s[i+1] == '\\' {
					b.WriteString(`\\`)
					i += 2
					continue
				}
				if s[i] == '\\' && i+1 < len(s) && s[i+1] == '\n' {
					i += 2
					continue
				}
				if s[i] == '"' {
					closed = true
					i++
					break
				}
				b.WriteByte(s[i])
				i++
			}
			if !closed {
				return nil, fmt.Errorf("offset %d: unterminated string", start)
			}
			toks = append(toks, DotTok{"qstr", b.String(), start})
		case c == '<':
			// HTML string: balanced angle brackets
			start := i
			depth := 0
			for i < len(s) {
				if s[i] == '<' {
					depth++
				} else if s[i] == '>' {
					depth--
					if depth == 0 {
						i++
						break
					}
				}
				i++
			}
			if depth != 0 {
				return nil, fmt.Errorf("offset %d: unterminated HTML string", start)
			}
			toks = append(toks, DotTok{"html", s[start:i], start})
		case c == '-' && i+1 < len(s) && (s[i+1] == '>' || s[i+1] == '-'):
			toks = append(toks, DotTok{"punct", s[i : i+2], i})
			i += 2
		case strings.IndexByte("{}[]=;,:+", c) >= 0:
			toks = append(toks, DotTok{"punct", string(c), i})
			i++
		case isIDStart(c):
			start := i
			for i < len(s) && isIDChar(s[i]) {
				i++
			}
			toks = append(toks, DotTok{"id", s[start:i], start})
		case c == '-' || c == '.' || (c >= '0' && c <= '9'):
			start := i
			if c == '-' {
				i++
			}
			digits := 0
			for i < len(s) && s[i] >= '0' && s[i] <= '9' {
				i++
				digits++
			}
			if i < len(s) && s[i] == '.' {
				i++
				for i < len(s) && s[i] >= '0' && s[i] <= '9' {
					i++
					digits++
				}
			}
			if digits == 0 {
				return nil, fmt.Errorf("offset %d: bad numeral", start)
			}
			if i < len(s) && isIDStart(s[i]) {
				return nil, fmt.Errorf("offset %d: numeral runs into identifier %q", start, s[start:min(i+8, len(s))])
			}
			toks = append(toks, DotTok{"id", s[start:i], start})
		default:
			return nil, fmt.Errorf("offset %d: unexpected character %q (context %q)", i, c, s[max(0, i-30):min(len(s), i+30)])
		}
	}
	toks = append(toks, DotTok{"eof", "", len(s)})
	return toks, nil
}

type dotParser struct {
	t   []DotTok
	p   int
	g   *DotGraph
	src string
}

func (p *dotParser) peek() DotTok { return p.t[p.p] }
func (p *dotParser) next() DotTok { t := p.t[p.p]; p.p++; return t }
func (p *dotParser) isPunct(s string) bool {
	return p.peek().Kind == "punct" && p.peek().Text == s
}
func (p *dotParser) errf(f string, a ...any) error {
	pos := p.peek().Pos
	return fmt.Errorf("DOT syntax error at offset %d (near %q): %s", pos, p.src[max(0, pos-40):min(len(p.src), pos+40)], fmt.Sprintf(f, a...))
}
func isID(t DotTok) bool { return t.Kind == "id" || t.Kind == "qstr" || t.Kind == "html" }

// ParseDot parses a DOT document.
func ParseDot(src string) (*DotGraph, error) {
	toks, err := dotLex(src)
	if err != nil {
		return nil, fmt.Errorf("DOT lexical error: %v", err)
	}
	p := &dotParser{t: toks, src: src, g: &DotGraph{Nodes: map[string]*DotNode{}, Mentioned: map[string]bool{}}}
	if t := p.peek(); t.Kind == "id" && strings.EqualFold(t.Text, "strict") {
		p.next()
	}
	t := p.next()
	if t.Kind != "id" || (!strings.EqualFold(t.Text, "digraph") && !strings.EqualFold(t.Text, "graph")) {
		p.p--
		return nil, p.errf("expected graph or digraph")
	}
	p.g.Directed = strings.EqualFold(t.Text, "digraph")
	if isID(p.peek()) {
		p.g.Name = p.next().Text
	}
	if !p.isPunct("{") {
		return nil, p.errf("expected '{' after the graph name")
	}
	p.next()
	if err := p.stmtList(); err != nil {
		return nil, err
	}
	if !p.isPunct("}") {
		return nil, p.errf("expected '}'")
	}
	p.next()
	if p.peek().Kind != "eof" {
		return nil, p.errf("trailing input after the graph")
	}
	return p.g, nil
}

func (p *dotParser) stmtList() error {
	for {
		if p.isPunct("}") || p.peek().Kind == "eof" {
			return nil
		}
		if err := p.stmt(); err != nil {
			return err
		}
		if p.isPunct(";") {
			p.next()
		}
	}
}

func (p *dotParser) attrList() (map[string]string, error) {
	attrs := map[string]string{}
	for p.isPunct("[") {
		p.next()
		for !p.isPunct("]") {
			if !isID(p.peek()) {
				return nil, p.errf("expected attribute name")
			}
			k := p.next().Text
			if !p.isPunct("=") {
				return nil, p.errf("expected '=' after attribute %q", k)
			}
			p.next()
			if !isID(p.peek()) {
				return nil, p.errf("expected a value for attribute %q", k)
			}
			v := p.next().Text
			// string concatenation with '+'
			for p.isPunct("+") {
				p.next()
				if p.peek().Kind != "qstr" {
					return nil, p.errf("expected string after '+'")
				}
				v += p.next().Text
			}
			attrs[k] = v
			if p.isPunct(";") || p.isPunct(",") {
				p.next()
			}
		}
		p.next()
	}
	return attrs, nil
}

func (p *dotParser) subgraph() ([]string, error) {
	// optional "subgraph [ID]"
	if t := p.peek(); t.Kind == "id" && strings.EqualFold(t.Text, "subgraph") {
		p.next()
		if isID(p.peek()) {
			p.next()
		}
	}
	if !p.isPunct("{") {
		return nil, p.errf("expected '{' for subgraph")
	}
	p.next()
	before := len(p.g.NodeSeq)
	if err := p.stmtList(); err != nil {
		return nil, err
	}
	if !p.isPunct("}") {
		return nil, p.errf("expected '}' closing subgraph")
	}
	p.next()
	return append([]string{}, p.g.NodeSeq[before:]...), nil
}

func (p *dotParser) nodeID() (string, error) {
	if !isID(p.peek()) {
		return "", p.errf("expected node id")
	}
	id := p.next().Text
	// ports
	for p.isPunct(":") {
		p.next()
		if !isID(p.peek()) {
			return "", p.errf("expected port")
		}
		p.next()
	}
	return id, nil
}

func (p *dotParser) stmt() error {
	t := p.peek()
	if t.Kind == "id" {
		switch strings.ToLower(t.Text) {
		case "graph", "node", "edge":
			if p.t[p.p+1].Kind == "punct" && p.t[p.p+1].Text == "[" {
				p.next()
				_, err := p.attrList()
				return err
			}
		}
	}
	var ends [][]string
	readEnd := func() error {
		t := p.peek()
		if p.isPunct("{") || (t.Kind == "id" && strings.EqualFold(t.Text, "subgraph")) {
			ids, err := p.subgraph()
			if err != nil {
				return err
			}
			ends = append(ends, ids)
			return nil
		}
		id, err := p.nodeID()
		if err != nil {
			return err
		}
		ends = append(ends, []string{id})
		return nil
	}
	if !isID(t) && !p.isPunct("{") {
		return p.errf("unexpected token %q", t.Text)
	}
	// ID '=' ID
	if isID(t) && p.t[p.p+1].Kind == "punct" && p.t[p.p+1].Text == "=" {
		p.next()
		p.next()
		if !isID(p.peek()) {
			return p.errf("expected value after '='")
		}
		p.next()
		return nil
	}
	wasSub := p.isPunct("{") || (t.Kind == "id" && strings.EqualFold(t.Text, "subgraph"))
	if err := readEnd(); err != nil {
		return err
	}
	isEdge := false
	for p.isPunct("->") || p.isPunct("--") {
		isEdge = true
		p.next()
		if err := readEnd(); err != nil {
			return err
		}
	}
	attrs, err := p.attrList()
	if err != nil {
		return err
	}
	if isEdge {
		for i := 0; i+1 < len(ends); i++ {
			for _, a := range ends[i] {
				for _, b := range ends[i+1] {
					p.g.Edges = append(p.g.Edges, DotEdge{a, b, attrs})
					p.g.Mentioned[a], p.g.Mentioned[b] = true, true
				}
			}
		}
		return nil
	}
	if wasSub {
		return nil
	}
	id := ends[0][0]
	p.g.Mentioned[id] = true
	if n := p.g.Nodes[id]; n != nil {
		for k, v := range attrs {
			n.Attrs[k] = v
		}
		return nil
	}
	p.g.Nodes[id] = &DotNode{ID: id, Attrs: attrs, Order: len(p.g.NodeSeq)}
	p.g.NodeSeq = append(p.g.NodeSeq, id)
	return nil
}
