package model

import (
	"fmt"
	"path/filepath"
	"sort"
	"strings"

	"github.com/google/pprof/profile"
)

// RConf is the report configuration understood by the reference model.
type RConf struct {
	Gran        string // functions, filefunctions, files, lines, addresses
	NoInlines   bool
	ShowColumns bool
	SampleIndex int
	Mean        bool
	TagRoot     []string
	TagLeaf     []string
	CallTree    bool
	// ByName: entries are identified by what they print as (the documented
	// reading); otherwise by every attribute the granularity retains,
	// including binary and function start line where pprof retains them.
	ByName bool
	// ObjNames: the output form keeps the binary name in the identity (callgrind, raw).
	ObjNames bool
}

// MFrame is one frame (a Line of a Location, or a bare Location).
type MFrame struct {
	HasFn     bool
	Name      string
	File      string
	Line, Col int64
	Addr      uint64
	Obj       string
	StartLine int64
	Inlined   bool // not the outermost line of its location
}

// Printable reproduces the documented naming of an entry.
func (f MFrame) Printable() string {
	var name []string
	if f.Addr != 0 {
		name = append(name, fmt.Sprintf("%016x", f.Addr))
	}
	if f.Name != "" {
		name = append(name, f.Name)
	}
	switch {
	case f.Line != 0:
		s := fmt.Sprintf("%s:%d", f.File, f.Line)
		if f.Col != 0 {
			s += fmt.Sprintf(":%d", f.Col)
		}
		name = append(name, s)
	case f.File != "":
		name = append(name, f.File)
	case f.Name != "":
	case f.Obj != "":
		name = append(name, "["+filepath.Base(f.Obj)+"]")
	default:
		name = append(name, "<unknown>")
	}
	return strings.Join(name, " ")
}

// Key is the identity of the entry a frame maps to.
func (f MFrame) Key(byName bool) string {
	if byName {
		return f.Printable()
	}
	// A frame whose function carries neither name nor file under this granularity is
	// indistinguishable from an unsymbolized frame of the same binary.
	return fmt.Sprintf("%q|%q|%d|%d|%x|%q|%d", f.Name, f.File, f.Line, f.Col, f.Addr, f.Obj, f.StartLine)
}

// reduce applies the granularity: which attributes an entry keeps.
func reduce(fr MFrame, c RConf) MFrame {
	fn, file, line, addr := false, false, false, false
	switch c.Gran {
	case "", "functions":
		fn = true
	case "filefunctions":
		fn, file = true, true
	case "files":
		file = true
	case "lines":
		fn, file, line = true, true, true
	case "addresses":
		fn, file, line, addr = true, true, true, true
	}
	col := c.ShowColumns
	if c.Gran == "addresses" && !c.NoInlines {
		col = true // nothing is aggregated away at address granularity with inlines
	}
	out := MFrame{HasFn: fr.HasFn, Inlined: fr.Inlined}
	if addr {
		out.Addr = fr.Addr
	}
	if !fr.HasFn {
		out.Obj = fr.Obj
		return out
	}
	if fn {
		out.Name = fr.Name
	}
	if file && fr.File != "" {
		out.File = filepath.Clean(fr.File)
	}
	if line {
		out.Line = fr.Line
		if col {
			out.Col = fr.Col
		}
	}
	if c.ObjNames || out.Name == "" {
		out.Obj = fr.Obj
		out.StartLine = fr.StartLine
	}
	return out
}

// labelValues renders the values of label key k the way tagroot/tagleaf name
// their pseudo frames: string values, then numeric values (only unit-less
// numeric labels are generated for this).
func labelValues(s *profile.Sample, k string) []string {
	var v []string
	v = append(v, s.Label[k]...)
	for _, n := range s.NumLabel[k] {
		v = append(v, fmt.Sprintf("%d", n))
	}
	return v
}

// FramesRootFirst flattens a sample into entry frames, caller first.
func FramesRootFirst(s *profile.Sample, c RConf) []MFrame {
	var out []MFrame
	for _, k := range c.TagRoot {
		out = append(out, reduce(MFrame{HasFn: true, Name: strings.Join(labelValues(s, k), ","), File: k}, c))
	}
	for i := len(s.Location) - 1; i >= 0; i-- {
		l := s.Location[i]
		obj := ""
		if l.Mapping != nil {
			obj = l.Mapping.File
		}
		if len(l.Line) == 0 {
			out = append(out, reduce(MFrame{Addr: l.Address, Obj: obj}, c))
			continue
		}
		lines := l.Line
		if c.NoInlines {
			lines = lines[len(lines)-1:]
		}
		for j := len(lines) - 1; j >= 0; j-- {
			ln := lines[j]
			fr := MFrame{HasFn: true, Name: ln.Function.Name, File: ln.Function.Filename, Line: ln.Line, Col: ln.Column, Addr: l.Address, Obj: obj,
				StartLine: ln.Function.StartLine, Inlined: j != len(lines)-1}
			out = append(out, reduce(fr, c))
		}
	}
	for _, k := range c.TagLeaf {
		out = append(out, reduce(MFrame{HasFn: true, Name: strings.Join(labelValues(s, k), ","), File: k}, c))
	}
	return out
}

// Acc is a sum with its mean divisor.
type Acc struct{ V, D int64 }

// Val is the displayed value: the sum, divided by the divisor sum when that is non-zero.
func (a Acc) Val() int64 {
	if a.D == 0 {
		return a.V
	}
	return a.V / a.D
}

// MEntry is a report entry of the model.
type MEntry struct {
	Name      string
	F         MFrame // the attributes the entry keeps under the granularity
	Flat, Cum Acc
}

// MReport is the reference report.
type MReport struct {
	Entries map[string]*MEntry
	Edges   map[[2]string]*Acc
	Total   int64
	// Traces: per sample with a non-empty stack, the value and the printable names leaf first.
	Traces []MTrace
}

type MTrace struct {
	Value int64
	Names []string
}

// BuildReport computes flat, cum, edge weights and total from their definitions.
func BuildReport(p *profile.Profile, c RConf) *MReport {
	r := &MReport{Entries: map[string]*MEntry{}, Edges: map[[2]string]*Acc{}}
	var tot, totD, btot, btotD int64
	for _, s := range p.Sample {
		v := s.Value[c.SampleIndex]
		var d int64
		if c.Mean {
			d = s.Value[0]
		}
		av := v
		if av < 0 {
			av = -av
		}
		tot += av
		totD += d
		if s.DiffBaseSample() {
			btot += av
			btotD += d
		}
		frames := FramesRootFirst(s, c)
		if len(frames) > 0 {
			tv := v
			if d != 0 {
				tv = v / d
			}
			tr := MTrace{Value: tv}
			for i := len(frames) - 1; i >= 0; i-- {
				tr.Names = append(tr.Names, frames[i].Printable())
			}
			r.Traces = append(r.Traces, tr)
		}
		if v == 0 && d == 0 {
			continue
		}
		if c.CallTree {
			// entries are paths from the root
			path := ""
			var prev string
			for i, f := range frames {
				path += "/" + f.Key(c.ByName)
				e := r.Entries[path]
				if e == nil {
					e = &MEntry{Name: f.Printable(), F: f}
					r.Entries[path] = e
				}
				e.Cum.V += v
				e.Cum.D += d
				if i > 0 {
					k := [2]string{prev, path}
					if r.Edges[k] == nil {
						r.Edges[k] = &Acc{}
					}
					r.Edges[k].V += v
					r.Edges[k].D += d
				}
				if i == len(frames)-1 {
					e.Flat.V += v
					e.Flat.D += d
				}
				prev = path
			}
			continue
		}
		seen := map[string]bool{}
		seenE := map[[2]string]bool{}
		prev := ""
		for i, f := range frames {
			k := f.Key(c.ByName)
			e := r.Entries[k]
			if e == nil {
				e = &MEntry{Name: f.Printable(), F: f}
				r.Entries[k] = e
			}
			if !seen[k] {
				seen[k] = true
				e.Cum.V += v
				e.Cum.D += d
			}
			if i > 0 && prev != k {
				ek := [2]string{prev, k}
				if !seenE[ek] {
					seenE[ek] = true
					if r.Edges[ek] == nil {
						r.Edges[ek] = &Acc{}
					}
					r.Edges[ek].V += v
					r.Edges[ek].D += d
				}
			}
			if i == len(frames)-1 {
				e.Flat.V += v
				e.Flat.D += d
			}
			prev = k
		}
	}
	if btot > 0 {
		tot, totD = btot, btotD
	}
	r.Total = tot
	if totD != 0 {
		r.Total = tot / totD
	}
	return r
}

// Row is one (name, flat, cum) line of a report.
type Row struct {
	Name      string
	Flat, Cum int64
}

// Rows lists the entries that carry a number (an entry whose flat and cum sums
// are both zero shows nothing and is not listed), sorted.
func (r *MReport) Rows() []Row {
	var rows []Row
	for _, e := range r.Entries {
		if e.Flat.V == 0 && e.Cum.V == 0 {
			continue
		}
		rows = append(rows, Row{e.Name, e.Flat.Val(), e.Cum.Val()})
	}
	SortRows(rows)
	return rows
}

func SortRows(rows []Row) {
	sort.Slice(rows, func(i, j int) bool {
		a, b := rows[i], rows[j]
		if a.Name != b.Name {
			return a.Name < b.Name
		}
		if a.Flat != b.Flat {
			return a.Flat < b.Flat
		}
		return a.Cum < b.Cum
	})
}

// EdgeRow is one caller->callee weight.
type EdgeRow struct {
	From, To string
	W        int64
}

// EdgeRows lists edges between listed entries.
func (r *MReport) EdgeRows() []EdgeRow {
	var out []EdgeRow
	for k, a := range r.Edges {
		from, to := r.Entries[k[0]], r.Entries[k[1]]
		if from.Flat.V == 0 && from.Cum.V == 0 || to.Flat.V == 0 && to.Cum.V == 0 {
			continue
		}
		out = append(out, EdgeRow{from.Name, to.Name, a.Val()})
	}
	SortEdges(out)
	return out
}

func SortEdges(e []EdgeRow) {
	sort.Slice(e, func(i, j int) bool {
		a, b := e[i], e[j]
		if a.From != b.From {
			return a.From < b.From
		}
		if a.To != b.To {
			return a.To < b.To
		}
		return a.W < b.W
	})
}

// FlatSum is the sum of the displayed flat values of the listed rows.
func FlatSum(rows []Row) int64 {
	var s int64
	for _, r := range rows {
		s += r.Flat
	}
	return s
}
