package c08

import (
	"bytes"
	"fmt"
	"github.com/google/pprof/internal/plugin"
	"os"
	"path/filepath"
	"regexp"
	"strings"
	"sync"
	"testing"
	"time"

	"github.com/google/pprof/internal/graph"
	"github.com/google/pprof/profile"
	"github.com/google/pprof/xverif/gen"
	"github.com/google/pprof/xverif/pp"
	"github.com/google/pprof/xverif/rep"
	"github.com/google/pprof/xverif/vk"
	"pgregory.net/rapid"
)

// ---- facet repeat: the same command K times ----

type repeatCase struct {
	P *gen.Prof
	C rep.Conf
	// Negate: add a negated copy of a subset of samples (profile-diff like ties: equal magnitude, opposite sign)
	NegMask int
	Trim    bool
	Twin    bool // list: two functions of one name and file with different start lines, sampled far apart
	TreeTie bool // call trees: identical subtrees under two roots whose totals cancel
	Deep    bool // with TreeTie: two stacks that differ near the root and share more than 64 innermost frames
	// CaseLabels: every label also exists under the same key with a capital first letter and the same values
	// (two instrumentation layers: "host" and "Host"), so that any case-insensitive ordering has ties
	CaseLabels bool
	// RealFile: the reports are written by pprof's own file writer to one real path; between run 0 (fresh file)
	// and run 1 a longer report (-raw) is written to the same path
	RealFile bool
	// SameBase: two shared objects with one base name in different directories, each with an unsymbolized frame
	// called from one function with equal weight and calling different functions: entries that print alike
	// ("[libfoo.so]") but are different nodes
	SameBase bool
}

var tieOpts = gen.Opts{Alpha: gen.Plain, MaxSamples: 8, MaxDepth: 5, MaxLines: 3, MinTypes: 1, MaxTypes: 2, SmallVals: true, AnyIDs: true, NoHugeIDs: true,
	Labels: true, NumLabels: true, EmptyStacks: true, NoMapping: true, Unsym: true, LosslessU: true, Columns: true, NearDup: true}

var formats = []string{"top", "tree", "peek", "dot", "callgrind", "tags", "traces", "raw", "proto", "topproto", "text", "list", "list"}

func genRepeat(t *rapid.T) *repeatCase {
	p := rep.GenProfile(t, tieOpts)
	c := &repeatCase{P: p, C: rep.GenConf(t, p, formats), NegMask: rapid.IntRange(0, 255).Draw(t, "negmask"), Trim: rapid.Bool().Draw(t, "trim"), Twin: rapid.Bool().Draw(t, "twin"), TreeTie: rapid.IntRange(0, 3).Draw(t, "treetie") == 0, Deep: rapid.IntRange(0, 3).Draw(t, "deep") == 0}
	if c.TreeTie {
		c.C.CallTree = true
		c.C.Format = rapid.SampledFrom([]string{"dot", "dot", "callgrind"}).Draw(t, "treefmt")
	}
	c.RealFile = rapid.IntRange(0, 3).Draw(t, "realfile") == 0
	c.SameBase = rapid.IntRange(0, 4).Draw(t, "samebase") == 0
	if c.SameBase && !c.TreeTie {
		c.C.Gran = rapid.SampledFrom([]string{"functions", "functions", "filefunctions", "files"}).Draw(t, "samebasegran")
		c.C.Format = rapid.SampledFrom([]string{"tree", "peek", "dot", "callgrind", "top", "traces"}).Draw(t, "samebasefmt")
	}
	c.CaseLabels = rapid.IntRange(0, 2).Draw(t, "caselabels") == 0
	if c.CaseLabels && !c.TreeTie && rapid.Bool().Draw(t, "caseraw") {
		c.C.Format = rapid.SampledFrom([]string{"raw", "tags", "proto", "traces"}).Draw(t, "casefmt")
	}
	return c
}

func tieProfile(c *repeatCase) *profile.Profile {
	gp := *c.P
	gp.Samples = append([]gen.Sample{}, c.P.Samples...)
	// mirrored samples: same labels and values, another stack (the sample's stack reversed) with negated values
	for i, s := range c.P.Samples {
		if c.NegMask&(1<<uint(i%8)) == 0 || len(s.Locs) < 2 {
			continue
		}
		m := s
		m.Locs = make([]int, len(s.Locs))
		for j := range s.Locs {
			m.Locs[j] = s.Locs[len(s.Locs)-1-j]
		}
		m.Values = make([]int64, len(s.Values))
		for j, v := range s.Values {
			m.Values[j] = -v
		}
		gp.Samples = append(gp.Samples, m)
	}
	p := gp.Build().Copy()
	if c.Twin && c.C.Format == "list" && len(p.Function) >= 2 {
		a, b := p.Function[0], p.Function[1]
		a.Name, a.SystemName, a.Filename, a.StartLine = "twin", "twin", "a.go", 1
		b.Name, b.SystemName, b.Filename, b.StartLine = "twin", "twin", "a.go", 40
		for _, l := range p.Location {
			for i := range l.Line {
				switch l.Line[i].Function {
				case a:
					l.Line[i].Line = 100
				case b:
					l.Line[i].Line = 50
				}
			}
		}
	}
	if c.TreeTie {
		// two extra root frames; under each of them the same two stacks with opposite values, so that the
		// roots total zero (they are left out of the graph) and their subtrees are indistinguishable
		var maxF, maxL uint64
		for _, f := range p.Function {
			if f.ID > maxF {
				maxF = f.ID
			}
		}
		for _, l := range p.Location {
			if l.ID > maxL {
				maxL = l.ID
			}
		}
		var roots []*profile.Location
		for i, name := range []string{"rootA", "rootB"} {
			f := &profile.Function{ID: maxF + 1 + uint64(i), Name: name, SystemName: name, Filename: "r.go"}
			l := &profile.Location{ID: maxL + 1 + uint64(i), Address: 0x900000 + uint64(i)*16, Line: []profile.Line{{Function: f, Line: 1}}}
			p.Function = append(p.Function, f)
			p.Location = append(p.Location, l)
			roots = append(roots, l)
		}
		var extra []*profile.Sample
		n := 0
		for _, s := range p.Sample {
			if len(s.Location) < 2 || n >= 2 {
				continue
			}
			n++
			rev := make([]*profile.Location, len(s.Location))
			for j := range s.Location {
				rev[j] = s.Location[len(s.Location)-1-j]
			}
			neg := make([]int64, len(s.Value))
			for j, v := range s.Value {
				neg[j] = -v
			}
			for _, r := range roots {
				extra = append(extra,
					&profile.Sample{Location: append(append([]*profile.Location{}, s.Location...), r), Value: append([]int64{}, s.Value...)},
					&profile.Sample{Location: append(append([]*profile.Location{}, rev...), r), Value: neg})
			}
		}
		p.Sample = append(p.Sample, extra...)
		if c.Deep && len(p.Location) > 0 {
			// main -> rootA|rootB -> (one frame repeated 70 times) -> leaf, one sample each
			rec := p.Location[0]
			for _, r := range roots {
				st := []*profile.Location{rec}
				for i := 0; i < 70; i++ {
					st = append(st, rec)
				}
				st = append(st, r)
				v := make([]int64, len(p.SampleType))
				for j := range v {
					v[j] = 1
				}
				p.Sample = append(p.Sample, &profile.Sample{Location: st, Value: v})
			}
		}
	}
	if c.SameBase {
		var maxF, maxL, maxM uint64
		for _, f := range p.Function {
			maxF = max(maxF, f.ID)
		}
		for _, l := range p.Location {
			maxL = max(maxL, l.ID)
		}
		for _, m := range p.Mapping {
			maxM = max(maxM, m.ID)
		}
		mainF := &profile.Function{ID: maxF + 11, Name: "dispatch", SystemName: "dispatch", Filename: "d.go"}
		mainL := &profile.Location{ID: maxL + 11, Address: 0xa00000, Line: []profile.Line{{Function: mainF, Line: 1}}}
		p.Function = append(p.Function, mainF)
		p.Location = append(p.Location, mainL)
		one := make([]int64, len(p.SampleType))
		for j := range one {
			one[j] = 3
		}
		for i, dir := range []string{"/opt/a/", "/opt/b/"} {
			m := &profile.Mapping{ID: maxM + 11 + uint64(i), Start: 0x7f0000000000 + uint64(i)*0x10000000, Limit: 0x7f0000001000 + uint64(i)*0x10000000, File: dir + "libfoo.so"}
			u := &profile.Location{ID: maxL + 12 + uint64(i), Mapping: m, Address: m.Start + 0x10}
			lf := &profile.Function{ID: maxF + 12 + uint64(i), Name: fmt.Sprintf("callee%d", i), SystemName: fmt.Sprintf("callee%d", i), Filename: "c.go"}
			ll := &profile.Location{ID: maxL + 14 + uint64(i), Address: 0xa00100 + uint64(i)*16, Line: []profile.Line{{Function: lf, Line: 1}}}
			p.Mapping = append(p.Mapping, m)
			p.Function = append(p.Function, lf)
			p.Location = append(p.Location, u, ll)
			p.Sample = append(p.Sample, &profile.Sample{Location: []*profile.Location{ll, u, mainL}, Value: append([]int64{}, one...)})
		}
	}
	if c.CaseLabels {
		title := func(k string) string {
			if k == "" || k[0] < 'a' || k[0] > 'z' {
				return ""
			}
			return strings.ToUpper(k[:1]) + k[1:]
		}
		if len(p.Sample) > 0 && len(p.Sample[0].Label) == 0 {
			p.Sample[0].Label = map[string][]string{"host": {"web1"}}
		}
		for _, s := range p.Sample {
			for k, vals := range s.Label {
				if t := title(k); t != "" && s.Label[t] == nil {
					s.Label[t] = append([]string{}, vals...)
				}
			}
			for k, vals := range s.NumLabel {
				if t := title(k); t != "" && s.NumLabel[t] == nil {
					s.NumLabel[t] = append([]int64{}, vals...)
					if u, ok := s.NumUnit[k]; ok {
						if s.NumUnit == nil {
							s.NumUnit = map[string][]string{}
						}
						s.NumUnit[t] = append([]string{}, u...)
					}
				}
			}
		}
	}
	// conflicting units for the numeric tags of several keys (warnings must come in a fixed order too)
	if c.NegMask&1 != 0 {
		for i, s := range p.Sample {
			for k, vals := range s.NumLabel {
				u := make([]string, len(vals))
				for j := range u {
					u[j] = []string{"bytes", "kb", "ms"}[(i+j)%3]
				}
				s.NumUnit[k] = u
			}
		}
	}
	return p
}

const K = 6

func checkRepeat(c *repeatCase, o *vk.Obs) []string {
	var e vk.Errs
	p := tieProfile(c)
	idx, _ := rep.ResolveIndex(p, c.C.SampleIndex)
	rep.Classify(p, c.C, o, idx)
	fl := c.C.Flags()
	fl["trim"] = fmt.Sprint(c.Trim)
	if c.C.Format == "list" {
		// annotated source listing of every function; the sources exist under a scratch directory
		fl["list"] = "."
		fl["source_path"] = sourceDir()
		fl["trim_path"] = "/usr/src"
	}
	var first string
	var firstErr string
	ties := false
	{
		// tie detection: two samples with equal |value|
		seen := map[int64]int{}
		for _, s := range p.Sample {
			v := s.Value[idx]
			if v < 0 {
				v = -v
			}
			seen[v]++
		}
		for _, n := range seen {
			if n > 1 {
				ties = true
			}
		}
	}
	o.LabelIf(ties, "equal-magnitudes")
	o.NonTrivial = ties
	real := ""
	if c.RealFile && c.C.Format != "list" {
		real = filepath.Join(os.Getenv("VERIF_SCRATCH"), fmt.Sprintf("c08report-%d", os.Getpid()))
		os.Remove(real)
		defer os.Remove(real)
		fl["output"] = real
		o.Label("real-output-file")
	}
	for k := 0; k < K; k++ {
		if real != "" && k == 1 {
			// something longer goes to the same file in between
			cc := c.C
			cc.Format = "raw"
			pf := cc.Flags()
			pf["output"] = real
			pp.Run(pp.Req{Flags: pf, Args: []string{"src"}, Sources: map[string]*pp.Source{"src": {Prof: p}}, OSWriter: true})
			if st, err := os.Stat(real); err == nil && int(st.Size()) > len(first) {
				o.Label("longer-report-in-between")
			}
		}
		res := pp.Run(pp.Req{Flags: fl, Args: []string{"src"}, Sources: map[string]*pp.Source{"src": {Prof: p}}, OSWriter: real != ""})
		if res.Panic != "" {
			return []string{"pprof panicked: " + res.Panic}
		}
		errS := ""
		if res.Err != nil {
			errS = res.Err.Error()
		}
		_, uiErrs := res.UI.Snapshot()
		body := res.Out("out")
		if real != "" && res.Err == nil {
			// (a command that fails writes nothing and leaves the file as it was)
			b, _ := os.ReadFile(real)
			body = string(b)
		}
		out := body + "\n--- messages ---\n" + strings.Join(uiErrs, "\n")
		if k == 0 {
			first, firstErr = out, errS
			continue
		}
		if errS != firstErr {
			e.Addf("run %d fails differently from run 0: %q vs %q", k, errS, firstErr)
			break
		}
		if out != first {
			e.Addf("-%s (granularity %s, call_tree=%v, trim=%v) differs between run 0 and run %d of the same command on the same profile:\n%s", c.C.Format, c.C.Gran, c.C.CallTree, c.Trim, k, firstDiff(first, out))
			if os.Getenv("VERIF_DUMP") != "" {
				fmt.Fprintf(os.Stderr, "==== run 0\n%s\n==== run %d\n%s\n", first, k, out)
			}
			break
		}
	}
	return e
}

func firstDiff(a, b string) string {
	la, lb := strings.Split(a, "\n"), strings.Split(b, "\n")
	for i := 0; i < len(la) || i < len(lb); i++ {
		var x, y string
		if i < len(la) {
			x = la[i]
		}
		if i < len(lb) {
			y = lb[i]
		}
		if x != y {
			return fmt.Sprintf("line %d:\n   run 0: %.300q\n   run k: %.300q", i+1, x, y)
		}
	}
	return "(lengths differ)"
}

func TestPropRepeat(t *testing.T) {
	vk.Main(t, vk.Spec[repeatCase]{ID: "C08", Facet: "repeat", Quick: 1200, Thorough: 4000, Gen: genRepeat, Check: checkRepeat, Journal: true,
		Rule: "tie-rich profiles (values from {0,±1,±2}, mirrored samples with negated values, equal names in different files / at different addresses, near-duplicate frames, duplicate label values) x every report option of C04 x trim x format (top,text,tree,peek,dot,callgrind,tags,traces,raw,proto,topproto); each command is run 6 times in one process (Go re-randomises map iteration on every range) and all outputs must be byte-identical; non-trivial = two samples with equal magnitude of the selected value"})
}

// ---- facet sort: comparator totality through the exported sort entry points ----

type sortCase struct {
	Names  []string
	Files  []string
	Addrs  []uint64
	Flat   []int64
	Cum    []int64
	Edges  [][2]int // src, dst node index
	EW     []int64
	Tags   []string
	TFlat  []int64
	TCum   []int64
	Order  int
	Perm   []int
	TPerm  []int
	ByFlat bool
}

func genSort(t *rapid.T) *sortCase {
	n := rapid.IntRange(2, 6).Draw(t, "n")
	c := &sortCase{Order: rapid.IntRange(0, 6).Draw(t, "order"), ByFlat: rapid.Bool().Draw(t, "byflat")}
	vals := []int64{0, 1, -1, 2, -2, 5, -5}
	for i := 0; i < n; i++ {
		c.Names = append(c.Names, rapid.SampledFrom([]string{"a", "b", "a", "main"}).Draw(t, "name"))
		c.Files = append(c.Files, rapid.SampledFrom([]string{"", "x.go", "y.go"}).Draw(t, "file"))
		c.Addrs = append(c.Addrs, rapid.SampledFrom([]uint64{0, 0x10, 0x20}).Draw(t, "addr"))
		c.Flat = append(c.Flat, rapid.SampledFrom(vals).Draw(t, "flat"))
		c.Cum = append(c.Cum, rapid.SampledFrom(vals).Draw(t, "cum"))
	}
	ne := rapid.IntRange(1, 6).Draw(t, "nedges")
	for i := 0; i < ne; i++ {
		c.Edges = append(c.Edges, [2]int{rapid.IntRange(0, n-1).Draw(t, "src"), rapid.IntRange(0, n-1).Draw(t, "dst")})
		c.EW = append(c.EW, rapid.SampledFrom(vals).Draw(t, "w"))
	}
	nt := rapid.IntRange(2, 5).Draw(t, "ntags")
	for i := 0; i < nt; i++ {
		c.Tags = append(c.Tags, fmt.Sprintf("t%d", i))
		c.TFlat = append(c.TFlat, rapid.SampledFrom(vals).Draw(t, "tflat"))
		c.TCum = append(c.TCum, rapid.SampledFrom(vals).Draw(t, "tcum"))
	}
	idx := make([]int, n)
	for i := range idx {
		idx[i] = i
	}
	c.Perm = rapid.Permutation(idx).Draw(t, "perm")
	tidx := make([]int, nt)
	for i := range tidx {
		tidx[i] = i
	}
	c.TPerm = rapid.Permutation(tidx).Draw(t, "tperm")
	return c
}

func checkSort(c *sortCase, o *vk.Obs) []string {
	var e vk.Errs
	n := len(c.Names)
	mk := func() graph.Nodes {
		ns := make(graph.Nodes, n)
		for i := 0; i < n; i++ {
			// distinct infos (documented precondition of a graph: no two nodes share their Info): the line number makes them so
			ns[i] = &graph.Node{Info: graph.NodeInfo{Name: c.Names[i], File: c.Files[i], Address: c.Addrs[i], Lineno: i + 1}, Flat: c.Flat[i], Cum: c.Cum[i], In: graph.EdgeMap{}, Out: graph.EdgeMap{}}
		}
		return ns
	}
	seq := func(ns graph.Nodes) string {
		var s []string
		for _, x := range ns {
			s = append(s, fmt.Sprint(x.Info.Lineno))
		}
		return strings.Join(s, ",")
	}
	base := mk()
	for _, ed := range c.Edges {
		if ed[0] != ed[1] {
			base[ed[0]].AddToEdge(base[ed[1]], 0, false, false)
		}
	}
	ord := graph.NodeOrder(c.Order)
	a := append(graph.Nodes{}, base...)
	b := make(graph.Nodes, n)
	for i, j := range c.Perm {
		b[i] = base[j]
	}
	if err := a.Sort(ord); err != nil {
		return nil
	}
	b.Sort(ord)
	ties := false
	for i := 0; i < n; i++ {
		for j := i + 1; j < n; j++ {
			if abs(c.Flat[i]) == abs(c.Flat[j]) || abs(c.Cum[i]) == abs(c.Cum[j]) {
				ties = true
			}
		}
	}
	o.LabelIf(ties, "ties")
	o.NonTrivial = ties
	if seq(a) != seq(b) {
		e.Addf("Nodes.Sort(order %d) depends on the input order: %s vs %s (names %v flat %v cum %v)", c.Order, seq(a), seq(b), c.Names, c.Flat, c.Cum)
	}
	// edges: the map's iteration order changes from call to call
	em := graph.EdgeMap{}
	nodes := mk()
	for i, ed := range c.Edges {
		src, dst := nodes[ed[0]], nodes[ed[1]]
		// names only (not line numbers) take part in the edge order, as in the report
		em[&graph.Node{Info: graph.NodeInfo{Lineno: 1000 + i}}] = &graph.Edge{Src: src, Dest: dst, Weight: c.EW[i]}
	}
	eseq := func(es []*graph.Edge) string {
		var s []string
		for _, x := range es {
			s = append(s, fmt.Sprintf("%s->%s:%d", x.Src.Info.PrintableName(), x.Dest.Info.PrintableName(), x.Weight))
		}
		return strings.Join(s, " ")
	}
	e0 := eseq(em.Sort())
	for k := 0; k < 8; k++ {
		if ek := eseq(em.Sort()); ek != e0 {
			e.Addf("EdgeMap.Sort gives different sequences for the same edges: %s vs %s", e0, ek)
			break
		}
	}
	// tags
	tags := func(perm []int) []*graph.Tag {
		var ts []*graph.Tag
		for _, i := range perm {
			ts = append(ts, &graph.Tag{Name: c.Tags[i], Flat: c.TFlat[i], Cum: c.TCum[i]})
		}
		return ts
	}
	tseq := func(ts []*graph.Tag) string {
		var s []string
		for _, x := range ts {
			s = append(s, x.Name)
		}
		return strings.Join(s, ",")
	}
	id := make([]int, len(c.Tags))
	for i := range id {
		id[i] = i
	}
	t1, t2 := tseq(graph.SortTags(tags(id), c.ByFlat)), tseq(graph.SortTags(tags(c.TPerm), c.ByFlat))
	if t1 != t2 {
		e.Addf("SortTags(flat=%v) depends on the input order: %s vs %s (flat %v cum %v)", c.ByFlat, t1, t2, c.TFlat, c.TCum)
	}
	return e
}

func abs(x int64) int64 {
	if x < 0 {
		return -x
	}
	return x
}

func TestPropSort(t *testing.T) {
	vk.Main(t, vk.Spec[sortCase]{ID: "C08", Facet: "sort", Quick: 20000, Thorough: 200000, Gen: genSort, Check: checkSort,
		Rule: "element sets with ties (weights from {0,±1,±2,±5}, repeated names, files, addresses) sorted through the exported entry points graph.Nodes.Sort (all 7 orders), EdgeMap.Sort and SortTags from two different input orders / repeated map iterations; the order must be total on the set, i.e. the resulting sequence is unique; non-trivial = at least one tie in |flat| or |cum|"})
}

// ---- facet fetchorder: the completion order of concurrent fetches must not show ----

type orderCase struct {
	Ps   []*gen.Prof
	Slow int // index of the source that completes last in run A; run B delays another one
	Fmt  string
}

func genOrder(t *rapid.T) *orderCase {
	o := tieOpts
	o.FixedTypes = []gen.VT{{Type: "samples", Unit: "count"}}
	u := gen.NewUniverse(t, o)
	n := rapid.IntRange(2, 4).Draw(t, "nsrc")
	c := &orderCase{Slow: rapid.IntRange(0, n-1).Draw(t, "slow"), Fmt: rapid.SampledFrom([]string{"proto", "raw", "traces", "top"}).Draw(t, "fmt")}
	for i := 0; i < n; i++ {
		p := gen.FromUniverse(t, u, o)
		p.Comments = []string{fmt.Sprintf("source %d", i)}
		c.Ps = append(c.Ps, p)
	}
	return c
}

func checkOrder(c *orderCase, o *vk.Obs) []string {
	var e vk.Errs
	n := len(c.Ps)
	run := func(slow int) (string, string) {
		done := make([]chan struct{}, n)
		for i := range done {
			done[i] = make(chan struct{})
		}
		srcs := map[string]*pp.Source{}
		var args []string
		for i, g := range c.Ps {
			i := i
			name := fmt.Sprintf("s%d", i)
			args = append(args, name)
			srcs[name] = &pp.Source{Prof: g.Build().Copy(), Gate: func(string) {
				if i == slow {
					// wait until every other source has been served
					for j := range done {
						if j != i {
							select {
							case <-done[j]:
							case <-time.After(2 * time.Second):
							}
						}
					}
					time.Sleep(2 * time.Millisecond)
				} else {
					close(done[i])
				}
			}}
		}
		res := pp.Run(pp.Req{Flags: map[string]string{c.Fmt: "true", "output": "out", "trim": "false"}, Args: args, Sources: srcs})
		if res.Panic != "" {
			return "", "panic: " + res.Panic
		}
		if res.Err != nil {
			return "", res.Err.Error()
		}
		out := res.Out("out")
		if c.Fmt == "proto" {
			if p, err := profile.ParseData([]byte(out)); err == nil {
				var b bytes.Buffer
				p.WriteUncompressed(&b)
				out = b.String()
			}
		}
		return out, ""
	}
	a, ea := run(c.Slow)
	b, eb := run((c.Slow + 1) % n)
	o.Label("fmt:" + c.Fmt)
	o.NonTrivial = true
	if ea != eb {
		e.Addf("fetch completion order changes the outcome: %q vs %q", ea, eb)
	} else if a != b {
		e.Addf("-%s of %d sources depends on which fetch completes last (source %d vs source %d):\n%s", c.Fmt, n, c.Slow, (c.Slow+1)%n, firstDiff(a, b))
	}
	return e
}

func TestPropFetchOrder(t *testing.T) {
	vk.Main(t, vk.Spec[orderCase]{ID: "C08", Facet: "fetchorder", Quick: 300, Thorough: 2000, Gen: genOrder, Check: checkOrder, Journal: true,
		Rule: "2..4 distinct sources over one universe fetched concurrently through a gating Fetcher plug-in; the same command is run twice with a different source forced to complete last; -proto (re-serialised), -raw, -traces and -top output must be byte-identical; every case is non-trivial"})
}

var srcOnce sync.Once

// sourceDir holds a 120-line source file for every file name the generator uses.
func sourceDir() string {
	dir := filepath.Join(os.Getenv("VERIF_SCRATCH"), "c08src")
	srcOnce.Do(func() {
		for _, f := range []string{"main.go", "a.go", "b.go", "src/x.cc", "src/y.cc", "lib/z.h", "w.c"} {
			var b strings.Builder
			for i := 1; i <= 120; i++ {
				fmt.Fprintf(&b, "%s line %d\n", f, i)
			}
			os.MkdirAll(filepath.Dir(filepath.Join(dir, f)), 0o755)
			os.WriteFile(filepath.Join(dir, f), []byte(b.String()), 0o644)
		}
	})
	return dir
}

// ---- facet disasm: assembly listings (command line and web UI) with an object tool supplied by the harness ----

type disCase struct {
	NSym    int
	Samples [][]int // stacks of symbol indexes, leaf first
	Vals    []int64
	Web     bool
	// SameName: the first two symbols carry one name (two static functions) and equally many samples
	SameName bool
}

func genDis(t *rapid.T) *disCase {
	c := &disCase{NSym: rapid.IntRange(2, 5).Draw(t, "nsym"), Web: rapid.Bool().Draw(t, "web"), SameName: rapid.IntRange(0, 2).Draw(t, "samename") == 0}
	n := rapid.IntRange(2, 7).Draw(t, "nsamples")
	for i := 0; i < n; i++ {
		depth := rapid.IntRange(1, 3).Draw(t, "depth")
		var st []int
		for j := 0; j < depth; j++ {
			st = append(st, rapid.IntRange(0, c.NSym-1).Draw(t, "sym"))
		}
		c.Samples = append(c.Samples, st)
		c.Vals = append(c.Vals, rapid.SampledFrom([]int64{1, 1, 2, 2, 3, 10, -1, -2}).Draw(t, "val"))
	}
	return c
}

type disObj struct {
	n    int
	same bool
}

func disName(i int, same bool) string {
	if same && i < 2 {
		return "symtwin"
	}
	return fmt.Sprintf("sym%d", i)
}

type disFile struct {
	n    int
	same bool
}

func (o disObj) Open(file string, start, limit, offset uint64, rs string) (plugin.ObjFile, error) {
	return disFile{o.n, o.same}, nil
}

func (o disObj) Disasm(file string, start, end uint64, intel bool) ([]plugin.Inst, error) {
	var out []plugin.Inst
	for a := start; a < end; a += 4 {
		i := int((a - 0x400000) / 0x100)
		out = append(out, plugin.Inst{Addr: a, Text: fmt.Sprintf("insn %d", (a%0x100)/4), Function: fmt.Sprintf("sym%d", i), File: "s.go", Line: int((a%0x100)/4) + 1})
	}
	return out, nil
}

func (f disFile) Name() string                              { return "/bin/app" }
func (f disFile) ObjAddr(a uint64) (uint64, error)          { return a, nil }
func (f disFile) BuildID() string                           { return "" }
func (f disFile) SourceLine(uint64) ([]plugin.Frame, error) { return nil, nil }
func (f disFile) Close() error                              { return nil }
func (f disFile) Symbols(r *regexp.Regexp, addr uint64) ([]*plugin.Sym, error) {
	var out []*plugin.Sym
	for i := 0; i < f.n; i++ {
		name := disName(i, f.same)
		start := uint64(0x400000 + i*0x100)
		if (r == nil || r.MatchString(name)) && (addr == 0 || (addr >= start && addr < start+0x20)) {
			out = append(out, &plugin.Sym{Name: []string{name}, File: "/bin/app", Start: start, End: start + 0x1f})
		}
	}
	return out, nil
}

func checkDis(c *disCase, o *vk.Obs) []string {
	var e vk.Errs
	m := &profile.Mapping{ID: 1, Start: 0x400000, Limit: 0x500000, File: "/bin/app"}
	p := &profile.Profile{SampleType: []*profile.ValueType{{Type: "samples", Unit: "count"}}, PeriodType: &profile.ValueType{Type: "cpu", Unit: "nanoseconds"}, Period: 1, Mapping: []*profile.Mapping{m}}
	for i := 0; i < c.NSym; i++ {
		f := &profile.Function{ID: uint64(i + 1), Name: disName(i, c.SameName), SystemName: disName(i, c.SameName), Filename: "s.go"}
		l := &profile.Location{ID: uint64(i + 1), Mapping: m, Address: uint64(0x400000 + i*0x100 + 8), Line: []profile.Line{{Function: f, Line: 3}}}
		p.Function = append(p.Function, f)
		p.Location = append(p.Location, l)
	}
	for i, st := range c.Samples {
		s := &profile.Sample{Value: []int64{c.Vals[i]}}
		for _, k := range st {
			s.Location = append(s.Location, p.Location[k])
		}
		p.Sample = append(p.Sample, s)
	}
	if c.SameName {
		// equal flat sums for the two namesakes: drop what the drawn samples gave them, add one sample each
		var keep []*profile.Sample
		for _, sm := range p.Sample {
			if sm.Location[0] != p.Location[0] && sm.Location[0] != p.Location[1] {
				keep = append(keep, sm)
			}
		}
		p.Sample = append(keep, &profile.Sample{Value: []int64{2}, Location: []*profile.Location{p.Location[0]}}, &profile.Sample{Value: []int64{2}, Location: []*profile.Location{p.Location[1]}})
		o.Label("same-named-symbols")
	}
	o.NonTrivial = true
	obj := disObj{c.NSym, c.SameName}
	var first string
	for k := 0; k < K; k++ {
		var out string
		if c.Web {
			w, err := pp.StartWeb(pp.Req{Args: []string{"src"}, Sources: map[string]*pp.Source{"src": {Prof: p}}, Obj: obj})
			if err != nil {
				return nil
			}
			code, body, _, pan := w.Get("/disasm?f=sym")
			w.Close()
			if pan != "" {
				return []string{"/disasm panicked: " + pan}
			}
			out = fmt.Sprint(code) + "\n" + body
		} else {
			res := pp.Run(pp.Req{Flags: map[string]string{"disasm": "sym", "output": "out"}, Args: []string{"src"}, Sources: map[string]*pp.Source{"src": {Prof: p}}, Obj: obj})
			if res.Panic != "" {
				return []string{"pprof -disasm panicked: " + res.Panic}
			}
			out = res.Out("out")
			if res.Err != nil {
				out += "\nerror: " + res.Err.Error()
			}
		}
		if k == 0 {
			first = out
			o.LabelIf(strings.Contains(out, "insn"), "listing-produced")
			continue
		}
		if out != first {
			e.Addf("the assembly listing (%s) differs between run 0 and run %d of the same request on the same profile:\n%s", map[bool]string{true: "web /disasm", false: "-disasm"}[c.Web], k, firstDiff(first, out))
			break
		}
	}
	return e
}

func TestPropDisasm(t *testing.T) {
	vk.Main(t, vk.Spec[disCase]{ID: "C08", Facet: "disasm", Quick: 400, Thorough: 3000, Gen: genDis, Check: checkDis, Journal: true,
		Rule: "profiles over 2..5 symbols of one binary with small values of either sign (ties in flat and cum, entries ranked differently by flat and by cum), assembly listing through the command line (-disasm) and through the web UI (/disasm, which orders the symbols by weight) with an object tool supplied by the harness, 6 repetitions; oracle: byte-identical output; every case is non-trivial"})
}

// ---- facet serialize: writing the same profile again gives the same bytes ----

type serCase struct {
	P   *gen.Prof
	Ops []int // 0 Write, 1 WriteUncompressed, 2 Copy then WriteUncompressed, 3 String
}

var serOpts = gen.Opts{Alpha: gen.Plain, MaxSamples: 6, MaxDepth: 4, MaxLines: 3, MinTypes: 1, MaxTypes: 3, AnyIDs: true, Unused: true, Labels: true, NumLabels: true,
	EmptyStacks: true, NoMapping: true, Unsym: true, Header: true, Columns: true, Folded: true}

func genSer(t *rapid.T) *serCase {
	return &serCase{P: gen.Profile(t, serOpts), Ops: rapid.SliceOfN(rapid.IntRange(0, 3), 2, 6).Draw(t, "ops")}
}

func checkSer(c *serCase, o *vk.Obs) []string {
	var e vk.Errs
	p := c.P.Build()
	if rapid0 := len(c.Ops) % 2; rapid0 == 0 {
		p = p.Copy() // a parsed profile
	}
	var raw0, gz0 bytes.Buffer
	p.WriteUncompressed(&raw0)
	p.Write(&gz0)
	o.NonTrivial = len(p.Comments) > 0 || len(p.Sample) > 0
	o.LabelIf(len(p.Comments) > 0, "has-comments")
	for i, op := range c.Ops {
		var b bytes.Buffer
		want := raw0.Bytes()
		switch op {
		case 0:
			p.Write(&b)
			want = gz0.Bytes()
		case 1:
			p.WriteUncompressed(&b)
		case 2:
			p.Copy().WriteUncompressed(&b)
		default:
			_ = p.String()
			continue
		}
		if !bytes.Equal(b.Bytes(), want) {
			e.Addf("serialization %d (op %d) of the unchanged profile gives %d bytes that differ from the first serialization (%d bytes); comments %q", i+1, op, b.Len(), len(want), p.Comments)
			break
		}
	}
	return e
}

func TestPropSerialize(t *testing.T) {
	vk.Main(t, vk.Spec[serCase]{ID: "C08", Facet: "serialize", Quick: 3000, Thorough: 30000, Gen: genSer, Check: checkSer,
		Rule: "generated profiles (comments, header fields, labels, sparse ids), fresh or parsed, serialized 2..6 more times through Write / WriteUncompressed / Copy+WriteUncompressed with String calls in between; oracle: every serialization is byte-identical to the first of its kind; non-trivial = the profile has comments or samples"})
}
