// Package tlsfix checks that certificate verification is a property of each fetched source: a source given as
// https+insecure:// is fetched without verification, a source given as https:// is not fetched from a server
// whose certificate does not verify - whatever was fetched before it or is being fetched at the same time.
// Used by C16 (which sources make it into the merge) and C20 (shared transport state under parallel fetch).
package tlsfix

import (
	"bytes"
	"fmt"
	"net/http"
	"net/http/httptest"
	"strings"
	"time"

	"github.com/google/pprof/profile"
	"github.com/google/pprof/xverif/pp"
	"github.com/google/pprof/xverif/vk"
)

// Case describes the source list: the position of the insecure and of the verifying source among local
// sources (served by the Fetcher-less file path is not needed: plain http sources of the same server).
type Case struct {
	N        int // total number of sources
	Insecure int // index of the https+insecure:// source
	Secure   int // index of the https:// source (must fail: the server's certificate is self-signed)
	SlowMs   int // the insecure answer is held back this long (keeps it in flight while others are fetched)
}

func prof(i int) []byte {
	f := &profile.Function{ID: 1, Name: fmt.Sprintf("fn%03d", i), SystemName: fmt.Sprintf("fn%03d", i)}
	l := &profile.Location{ID: 1, Address: 0x10, Line: []profile.Line{{Function: f, Line: 1}}}
	p := &profile.Profile{SampleType: []*profile.ValueType{{Type: "samples", Unit: "count"}}, PeriodType: &profile.ValueType{Type: "cpu", Unit: "nanoseconds"}, Period: 1,
		Function: []*profile.Function{f}, Location: []*profile.Location{l}, Sample: []*profile.Sample{{Location: []*profile.Location{l}, Value: []int64{int64(i + 1)}}}}
	var b bytes.Buffer
	p.Write(&b)
	return b.Bytes()
}

// Check runs pprof on the source list and returns violations.
func Check(c *Case, o *vk.Obs) []string {
	var e vk.Errs
	handler := http.HandlerFunc(func(w http.ResponseWriter, r *http.Request) {
		var i int
		fmt.Sscanf(r.URL.Path, "/p%d", &i)
		if i == c.Insecure && c.SlowMs > 0 {
			time.Sleep(time.Duration(c.SlowMs) * time.Millisecond)
		}
		w.Write(prof(i))
	})
	tlsSrv := httptest.NewTLSServer(handler)
	defer tlsSrv.Close()
	plain := httptest.NewServer(handler)
	defer plain.Close()
	tlsHost := strings.TrimPrefix(tlsSrv.URL, "https://")
	var args []string
	for i := 0; i < c.N; i++ {
		switch i {
		case c.Insecure:
			args = append(args, fmt.Sprintf("https+insecure://%s/p%d", tlsHost, i))
		case c.Secure:
			args = append(args, fmt.Sprintf("https://%s/p%d", tlsHost, i))
		default:
			args = append(args, fmt.Sprintf("%s/p%d", plain.URL, i))
		}
	}
	res := pp.Run(pp.Req{Flags: map[string]string{"traces": "true", "output": "out"}, Args: args, NoFetch: true, DefaultRT: true})
	if res.Panic != "" {
		return []string{"pprof panicked: " + res.Panic}
	}
	if res.Err != nil {
		o.Inconcl = append(o.Inconcl, "loopback HTTP not available: "+res.Err.Error())
		return nil
	}
	out := res.Out("out")
	_, errs := res.UI.Snapshot()
	o.NonTrivial = true
	if !strings.Contains(out, fmt.Sprintf("fn%03d", c.Insecure)) {
		e.Addf("the https+insecure:// source (index %d of %d) is missing from the report although it can be fetched without verification; messages %.400q", c.Insecure, c.N, errs)
	}
	if strings.Contains(out, fmt.Sprintf("fn%03d", c.Secure)) {
		e.Addf("the https:// source (index %d of %d) was fetched from a server whose certificate does not verify (an https+insecure:// source is at index %d, held back %d ms) and merged into the report", c.Secure, c.N, c.Insecure, c.SlowMs)
	}
	for i := 0; i < c.N; i++ {
		if i != c.Secure && i != c.Insecure && !strings.Contains(out, fmt.Sprintf("fn%03d", i)) {
			e.Addf("plain source %d is missing from the report", i)
			break
		}
	}
	return e
}
