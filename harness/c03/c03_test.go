package c03

import (
	"bytes"
	"fmt"
	"sort"
	"testing"

	"github.com/google/pprof/profile"
	"github.com/google/pprof/xverif/gen"
	"github.com/google/pprof/xverif/model"
	"github.com/google/pprof/xverif/pp"
	"github.com/google/pprof/xverif/vk"
	"pgregory.net/rapid"
)

type mergeCase struct {
	Ps         []*gen.Prof
	CopyMask   int   // bit i: input i is passed through Copy() first
	MergedMask int   // bit i: input i is itself the in-memory result of an earlier merge (Compact), as in a chunked merge
	Perm       []int // permutation for the order-independence clause
	Incompat   int   // 0: compatible; 1: sample type differs; 2: period type differs; 3: number of types differs
}

var opts = gen.Opts{Alpha: gen.Plain, MaxSamples: 8, MaxDepth: 5, MaxLines: 3, MinTypes: 1, MaxTypes: 3, SmallVals: true, AnyIDs: true, Unused: true,
	Labels: true, NumLabels: true, EmptyStacks: true, NoMapping: true, Unsym: true, NearDup: true, Header: true, Columns: true, Folded: true}

// normal puts numeric-label units into parser normal form (absent, or padded
// to full length with at least one non-empty unit): every real input of Merge
// comes out of the parser.
func normal(p *gen.Prof) {
	for si := range p.Samples {
		for ni := range p.Samples[si].Nums {
			n := &p.Samples[si].Nums[ni]
			any := false
			for _, u := range n.Units {
				if u != "" {
					any = true
				}
			}
			if !any {
				n.HasUnits, n.Units = false, nil
			}
		}
	}
}

func genMerge(t *rapid.T) *mergeCase {
	u := gen.NewUniverse(t, opts)
	n := rapid.IntRange(1, 4).Draw(t, "nprofiles")
	c := &mergeCase{CopyMask: rapid.IntRange(0, 15).Draw(t, "copymask"), MergedMask: rapid.SampledFrom([]int{0, 0, 1, 2, 3, 5, 15}).Draw(t, "mergedmask")}
	var pt gen.VT
	for i := 0; i < n; i++ {
		p := gen.FromUniverse(t, u, opts)
		normal(p)
		if i == 0 {
			pt = p.PeriodType
			if !p.HasPeriodType {
				pt = gen.VT{}
			}
		}
		// merge requires equal period types: a nil period type is not a legal Merge input
		p.HasPeriodType, p.PeriodType = true, pt
		c.Ps = append(c.Ps, p)
	}
	idx := make([]int, n)
	for i := range idx {
		idx[i] = i
	}
	c.Perm = rapid.Permutation(idx).Draw(t, "perm")
	if n > 1 && rapid.IntRange(0, 14).Draw(t, "incompat") == 0 {
		c.Incompat = rapid.IntRange(1, 3).Draw(t, "incompatkind")
		last := c.Ps[n-1]
		switch c.Incompat {
		case 1:
			last.SampleTypes[0].Unit += "x"
		case 2:
			last.PeriodType.Type += "x"
		case 3:
			last.SampleTypes = append(last.SampleTypes, gen.VT{Type: "extra", Unit: "count"})
			for i := range last.Samples {
				last.Samples[i].Values = append(last.Samples[i].Values, 1)
			}
		}
	}
	return c
}

func build(c *mergeCase) []*profile.Profile {
	var in []*profile.Profile
	for i, gp := range c.Ps {
		p := gp.Build()
		if c.CopyMask&(1<<uint(i)) != 0 {
			p = p.Copy()
		}
		if c.MergedMask&(1<<uint(i)) != 0 {
			p = p.Compact()
		}
		in = append(in, p)
	}
	return in
}

func sumCanon(in []*profile.Profile, coarse bool) model.Canon {
	want := model.Canon{}
	for _, p := range in {
		for _, s := range p.Sample {
			want.Add(model.StackKey(s, coarse), s.Value, 1)
		}
	}
	return want.DropZero()
}

func serial(p *profile.Profile) []byte {
	var b bytes.Buffer
	p.WriteUncompressed(&b)
	return b.Bytes()
}

func classify(c *mergeCase, in []*profile.Profile, o *vk.Obs) {
	// shared stacks across inputs, near duplicates, aslr, id collisions, zero sums
	seenBy := map[string]map[int]bool{}
	starts := map[string]map[uint64]bool{}
	total := model.Canon{}
	for i, p := range in {
		for _, s := range p.Sample {
			k := model.StackKey(s, true)
			if seenBy[k] == nil {
				seenBy[k] = map[int]bool{}
			}
			seenBy[k][i] = true
			total.Add(k, s.Value, 1)
		}
		for _, m := range p.Mapping {
			k := model.BinKey(m, true)
			if starts[k] == nil {
				starts[k] = map[uint64]bool{}
			}
			starts[k][m.Start] = true
		}
	}
	shared := false
	for _, by := range seenBy {
		if len(by) > 1 {
			shared = true
		}
	}
	for _, st := range starts {
		o.LabelIf(len(st) > 1, "aslr")
	}
	nz := len(total)
	o.LabelIf(len(total.DropZero()) < nz, "zero-sum")
	// near duplicates: two distinct fine frame keys that agree in everything but one attribute are
	// produced by the generator's NearDup; approximate by: same function name with different keys.
	names := map[string]map[string]bool{}
	for _, p := range in {
		for _, l := range p.Location {
			nm := ""
			for _, ln := range l.Line {
				nm += ln.Function.Name + ";"
			}
			if names[nm] == nil {
				names[nm] = map[string]bool{}
			}
			names[nm][model.FrameKey(l, false)] = true
		}
	}
	near := false
	for _, ks := range names {
		if len(ks) > 1 {
			near = true
		}
	}
	o.LabelIf(near, "near-duplicate")
	o.LabelIf(shared, "shared-stack")
	o.LabelIf(len(in) > 1, "multi-input")
	for _, p := range in {
		for _, l := range p.Location {
			o.LabelIf(len(l.Line) > 1, "inlined")
		}
	}
	o.NonTrivial = len(in) >= 2 && shared && near
}

func checkMerge(c *mergeCase, o *vk.Obs) []string {
	var e vk.Errs
	in := build(c)
	for _, p := range in {
		if err := model.Valid(p); err != nil {
			return []string{"generator produced invalid profile (harness bug): " + err.Error()}
		}
	}
	classify(c, in, o)
	var snaps []string
	for _, p := range in {
		snaps = append(snaps, model.Snap(p, model.SnapOpts{}))
	}
	out, err := profile.Merge(in)
	if c.Incompat != 0 {
		o.Label("incompatible")
		if err == nil {
			e.Addf("Merge accepted profiles with different %s", []string{"", "sample type unit", "period type", "number of sample types"}[c.Incompat])
		}
		return e
	}
	if err != nil {
		e.Addf("Merge of compatible profiles failed: %v", err)
		return e
	}
	// (1) validity
	if err := model.Valid(out); err != nil {
		e.Addf("merged profile invalid: %v", err)
		return e
	}
	if err := out.CheckValid(); err != nil {
		e.Addf("merged profile fails CheckValid: %v", err)
	}
	// (2) conservation per coarse key
	want := sumCanon(in, true)
	got := model.CanonOf(out, true)
	gotNZ := model.CanonOf(out, true).DropZero()
	if !want.Equal(gotNZ) {
		e.Addf("stack weights not conserved (identity = documented merge identity):\n%s", want.Diff(gotNZ))
	}
	// (3) uniqueness per fine key, no all-zero sample
	seen := map[string]bool{}
	for _, s := range out.Sample {
		k := model.StackKey(s, false)
		if seen[k] {
			e.Addf("two merged samples have the same stack and labels (under-merged): %s", k)
		}
		seen[k] = true
		zero := true
		for _, v := range s.Value {
			if v != 0 {
				zero = false
			}
		}
		if zero {
			e.Addf("merged profile keeps an all-zero sample: %s", k)
		}
	}
	_ = got
	// (4) nothing else: every entity is referenced, except the main-binary mapping
	usedL := map[*profile.Location]bool{}
	usedF := map[*profile.Function]bool{}
	usedM := map[*profile.Mapping]bool{}
	for _, s := range out.Sample {
		for _, l := range s.Location {
			usedL[l] = true
			if l.Mapping != nil {
				usedM[l.Mapping] = true
			}
			for _, ln := range l.Line {
				usedF[ln.Function] = true
			}
		}
	}
	for _, l := range out.Location {
		if !usedL[l] {
			e.Addf("merged profile has unreferenced location %d", l.ID)
		}
	}
	for _, f := range out.Function {
		if !usedF[f] {
			e.Addf("merged profile has unreferenced function %d %q", f.ID, f.Name)
		}
	}
	var firstMap *profile.Mapping
	for _, p := range in {
		if len(p.Mapping) > 0 {
			firstMap = p.Mapping[0]
			break
		}
	}
	for i, m := range out.Mapping {
		if !usedM[m] {
			if i == 0 && firstMap != nil && model.BinKey(m, true) == model.BinKey(firstMap, true) {
				continue // documented: the first mapping (main binary) is kept
			}
			e.Addf("merged profile has unreferenced mapping %d %q", m.ID, m.File)
		}
	}
	// (5) header
	checkHeader(&e, in, out)
	// (8) inputs untouched
	for i, p := range in {
		if s := model.Snap(p, model.SnapOpts{}); s != snaps[i] {
			e.Addf("Merge modified input %d", i)
		}
	}
	// (6) order independence
	if len(in) > 1 {
		perm := make([]*profile.Profile, len(in))
		for i, j := range c.Perm {
			perm[i] = in[j]
		}
		out2, err := profile.Merge(perm)
		if err != nil {
			e.Addf("Merge of permuted inputs failed: %v", err)
		} else {
			g2 := model.CanonOf(out2, true).DropZero()
			if !gotNZ.Equal(g2) {
				e.Addf("result depends on input order:\n%s", gotNZ.Diff(g2))
			}
			if len(out2.Sample) != len(out.Sample) {
				e.Addf("number of samples depends on input order: %d vs %d", len(out.Sample), len(out2.Sample))
			}
			if out2.Period != out.Period || out2.TimeNanos != out.TimeNanos || out2.DurationNanos != out.DurationNanos {
				e.Addf("period/time/duration depend on input order: %d/%d/%d vs %d/%d/%d", out.Period, out.TimeNanos, out.DurationNanos, out2.Period, out2.TimeNanos, out2.DurationNanos)
			}
		}
	}
	// (7) compaction idempotent
	c1 := out.Compact()
	c2 := c1.Compact()
	if !bytes.Equal(serial(c1), serial(c2)) {
		e.Addf("compacting twice differs from compacting once")
	}
	if !model.CanonOf(c1, false).Equal(model.CanonOf(out, false)) {
		e.Addf("compacting a merged profile changed its samples:\n%s", model.CanonOf(out, false).Diff(model.CanonOf(c1, false)))
	}
	// single-profile compaction conserves too
	for i, p := range in {
		cp := p.Compact()
		w := sumCanon([]*profile.Profile{p}, true)
		if g := model.CanonOf(cp, true).DropZero(); !w.Equal(g) {
			e.Addf("Compact of input %d does not conserve stacks:\n%s", i, w.Diff(g))
		}
	}
	// (9) no aliasing: scribble over the output, inputs must not change
	scribble(out)
	for i, p := range in {
		if s := model.Snap(p, model.SnapOpts{}); s != snaps[i] {
			e.Addf("output aliases input %d: modifying the merged profile changed the input: %s", i, firstDiff(snaps[i], s))
		}
	}
	return e
}

func firstDiff(a, b string) string {
	la, lb := bytes.Split([]byte(a), []byte("\n")), bytes.Split([]byte(b), []byte("\n"))
	for i := 0; i < len(la) || i < len(lb); i++ {
		var x, y string
		if i < len(la) {
			x = string(la[i])
		}
		if i < len(lb) {
			y = string(lb[i])
		}
		if x != y {
			return fmt.Sprintf("line %d: was %s now %s", i, x, y)
		}
	}
	return ""
}

func scribble(p *profile.Profile) {
	for _, st := range p.SampleType {
		st.Type += "!"
		st.Unit += "!"
	}
	if p.PeriodType != nil {
		p.PeriodType.Type += "!"
		p.PeriodType.Unit += "!"
	}
	for i := range p.Comments {
		p.Comments[i] += "!"
	}
	for _, m := range p.Mapping {
		m.File += "!"
		m.BuildID += "!"
		m.Start++
		m.HasFunctions = !m.HasFunctions
	}
	for _, f := range p.Function {
		f.Name += "!"
		f.StartLine++
	}
	for _, l := range p.Location {
		l.Address++
		l.IsFolded = !l.IsFolded
		for i := range l.Line {
			l.Line[i].Line++
		}
	}
	for _, s := range p.Sample {
		for i := range s.Value {
			s.Value[i] += 1000
		}
		for k, vs := range s.Label {
			for i := range vs {
				vs[i] += "!"
			}
			s.Label[k+"!"] = vs
		}
		for k, vs := range s.NumLabel {
			for i := range vs {
				vs[i] += 7
			}
			for i := range s.NumUnit[k] {
				s.NumUnit[k][i] += "!"
			}
		}
		if len(s.Location) > 0 {
			s.Location[0] = s.Location[len(s.Location)-1]
		}
	}
}

func checkHeader(e *vk.Errs, in []*profile.Profile, out *profile.Profile) {
	var period, earliest, dur int64
	var comments []string
	seen := map[string]bool{}
	for _, p := range in {
		if p.Period > period {
			period = p.Period
		}
		if p.TimeNanos != 0 && (earliest == 0 || p.TimeNanos < earliest) {
			earliest = p.TimeNanos
		}
		dur += p.DurationNanos
		for _, c := range p.Comments {
			if !seen[c] {
				seen[c] = true
				comments = append(comments, c)
			}
		}
	}
	if out.Period != period {
		e.Addf("period: want the maximum %d, got %d", period, out.Period)
	}
	if out.TimeNanos != earliest {
		e.Addf("collection time: want the earliest non-zero %d, got %d", earliest, out.TimeNanos)
	}
	if out.DurationNanos != dur {
		e.Addf("duration: want the sum %d, got %d", dur, out.DurationNanos)
	}
	if fmt.Sprintf("%q", comments) != fmt.Sprintf("%q", out.Comments) {
		e.Addf("comments: want the ordered de-duplicated union %q, got %q", comments, out.Comments)
	}
	f := in[0]
	if len(out.SampleType) != len(f.SampleType) {
		e.Addf("sample types differ from the first input")
	} else {
		for i := range f.SampleType {
			if *out.SampleType[i] != *f.SampleType[i] && (out.SampleType[i].Type != f.SampleType[i].Type || out.SampleType[i].Unit != f.SampleType[i].Unit) {
				e.Addf("sample type %d differs from the first input", i)
			}
		}
	}
	if out.PeriodType == nil || out.PeriodType.Type != f.PeriodType.Type || out.PeriodType.Unit != f.PeriodType.Unit {
		e.Addf("period type differs from the first input")
	}
	if out.DropFrames != f.DropFrames || out.KeepFrames != f.KeepFrames {
		e.Addf("drop/keep frames differ from the first input")
	}
	// default sample type / doc url: some input's value, non-empty if any input has one
	okD, anyD, okU, anyU := false, false, false, false
	for _, p := range in {
		okD = okD || p.DefaultSampleType == out.DefaultSampleType
		anyD = anyD || p.DefaultSampleType != ""
		okU = okU || p.DocURL == out.DocURL
		anyU = anyU || p.DocURL != ""
	}
	if !okD || (anyD && out.DefaultSampleType == "") {
		e.Addf("default sample type %q is not taken from the inputs", out.DefaultSampleType)
	}
	if !okU || (anyU && out.DocURL == "") {
		e.Addf("doc url %q is not taken from the inputs", out.DocURL)
	}
	_ = sort.Strings
}

func TestPropMerge(t *testing.T) {
	vk.Main(t, vk.Spec[mergeCase]{ID: "C03", Facet: "merge", Quick: 12000, Thorough: 60000, Gen: genMerge, Check: checkMerge,
		Rule: "1..4 profiles assembled from one drawn universe (colliding ids, same binary at different ASLR starts, near-duplicate functions/lines/locations/mappings/labels differing in exactly one attribute at every inline depth, unused entities, zero/negative/cancelling values from {0,±1,±2}); oracle: id-free canonical multiset conservation (coarse identity), uniqueness (fine identity), no extras, header rules, order independence, Compact idempotence, inputs untouched and unaliased; non-trivial = >=2 inputs sharing >=1 canonical stack and >=1 near-duplicate pair present"})
}

// ---- facet driver: the same merge as the command line performs it (pprof a b c ...) ----

type drvCase struct {
	M    *mergeCase
	Big  bool // sample values beyond 2^53
	Many int  // 0, or the number of sources (129, 130, 257): the list is the case's profiles repeated
}

func genDrv(t *rapid.T) *drvCase {
	m := genMerge(t)
	return &drvCase{M: m, Big: rapid.Bool().Draw(t, "big"), Many: rapid.SampledFrom([]int{0, 0, 0, 0, 0, 129, 130, 257}).Draw(t, "many")}
}

func checkDrv(c *drvCase, o *vk.Obs) []string {
	var e vk.Errs
	in := build(c.M)
	if len(in) < 2 || c.M.Incompat != 0 {
		return nil
	}
	for i, p := range in {
		// pruning (C11) and symbolization are not the subject here; every source gets its own comment
		p.DropFrames, p.KeepFrames = fmt.Sprintf("dropme%d", i), ""
		p.Comments = append(p.Comments, fmt.Sprintf("source-%d", i))
		if len(p.Mapping) == 0 {
			// the driver gives mapping-less profiles a mapping of its own
			return nil
		}
		for _, l := range p.Location {
			if l.Mapping == nil {
				return nil
			}
		}
		if c.Big && c.Many == 0 {
			for _, s := range p.Sample {
				for j, v := range s.Value {
					switch {
					case v > 0:
						s.Value[j] = v + 1<<53
					case v < 0:
						s.Value[j] = v - 1<<53
					}
				}
			}
		}
	}
	o.LabelIf(c.Big && c.Many == 0, "values-beyond-2^53")
	list := in
	if c.Many > 0 {
		list = nil
		for i := 0; i < c.Many; i++ {
			list = append(list, in[i%len(in)])
		}
		o.Label("crosses-128-sources")
	}
	srcs := map[string]*pp.Source{}
	var args []string
	for i, p := range list {
		n := fmt.Sprintf("s%03d", i)
		srcs[n] = &pp.Source{Prof: p}
		args = append(args, n)
	}
	res := pp.Run(pp.Req{Flags: map[string]string{"proto": "true", "output": "out"}, Args: args, Sources: srcs})
	if res.Panic != "" {
		return []string{"pprof panicked: " + res.Panic}
	}
	if res.Err != nil {
		e.Addf("pprof -proto of %d compatible sources failed: %v", len(list), res.Err)
		return e
	}
	out, err := profile.ParseData([]byte(res.Out("out")))
	if err != nil {
		return []string{"-proto output does not parse: " + err.Error()}
	}
	o.NonTrivial = true
	// the output went through the encoder: compare with the sources in encoded form too (a numeric label
	// value 0 without unit cannot be represented, C01)
	var enc []*profile.Profile
	for _, p := range list {
		enc = append(enc, p.Copy())
	}
	want := sumCanon(enc, true)
	got := model.CanonOf(out, true).DropZero()
	if !want.Equal(got) {
		e.Addf("pprof of %d sources is not the element-wise sum of the sources per stack and label set:\n%s", len(list), want.Diff(got))
	}
	var comments []string
	seen := map[string]bool{}
	for _, p := range list {
		for _, cm := range p.Comments {
			if !seen[cm] {
				seen[cm] = true
				comments = append(comments, cm)
			}
		}
	}
	if fmt.Sprintf("%q", comments) != fmt.Sprintf("%q", out.Comments) {
		e.Addf("comments: want the ordered de-duplicated union %.300q, got %.300q", comments, out.Comments)
	}
	if out.DropFrames != list[0].DropFrames {
		e.Addf("drop_frames %q does not come from the first source (%q)", out.DropFrames, list[0].DropFrames)
	}
	return e
}

func TestPropDriver(t *testing.T) {
	vk.Main(t, vk.Spec[drvCase]{ID: "C03", Facet: "driver", Quick: 1500, Thorough: 8000, Gen: genDrv, Check: checkDrv, Journal: true,
		Rule: "the merge generator's 2..4 compatible profiles given to the driver as sources (pprof a b c -proto), half of the cases with sample values beyond 2^53, some with the list repeated to 129 / 130 / 257 sources (the driver merges in chunks of 128); oracle: per stack and label set the element-wise sum of the sources, comments the ordered de-duplicated union, drop_frames of the first source; every case with at least two sources is non-trivial"})
}
