package c10

import (
	"bytes"
	"encoding/json"
	"fmt"
	"github.com/google/pprof/xverif/sess"
	"os"
	"os/exec"
	"path/filepath"
	"strings"
	"sync"
	"testing"
	"time"

	"github.com/google/pprof/profile"
	"github.com/google/pprof/xverif/gen"
	"github.com/google/pprof/xverif/model"
	"github.com/google/pprof/xverif/pp"
	"github.com/google/pprof/xverif/rep"
	"github.com/google/pprof/xverif/vk"
	"pgregory.net/rapid"
)

var profOpts = gen.Opts{Alpha: gen.Plain, MaxSamples: 8, MaxDepth: 5, MaxLines: 3, MinTypes: 1, MaxTypes: 2, AnyIDs: true, NoHugeIDs: true,
	Labels: true, NumLabels: true, EmptyStacks: true, NoMapping: true, Unsym: true, LosslessU: true, Columns: true, NearDup: true}

// Step is one interactive line: an option assignment or a command with its own arguments.
type Step struct {
	Assign bool
	Name   string // option name (assignment) or command
	Value  string
	Bare   bool     // assignment written as a bare word (bool option or radio choice)
	Bad    bool     // an assignment pprof rejects (unparsable number): it must change nothing
	Args   []string // command arguments (focus/ignore words, count, -cum)
	Redir  int      // 0 stdout, 1 ">fileN", 2 "> fileN", 3 ">failN" (the writer refuses to open it), 4 ">same" (one file name used by several commands)
}

type histCase struct {
	P     *gen.Prof
	Steps []Step
	Real  bool // redirected output is written by pprof itself, as files in the working directory
}

var boolOpts = []string{"call_tree", "relative_percentages", "mean", "drop_negative", "trim", "noinlines", "showcolumns", "compact_labels"}
var radio = map[string]string{"cum": "sort", "flat": "sort", "functions": "granularity", "filefunctions": "granularity", "files": "granularity", "lines": "granularity", "addresses": "granularity"}
var cmds = []string{"top", "top", "tree", "peek", "traces", "tags", "dot", "callgrind", "callgrind", "raw", "text", "comments", "svg", "png", "proto", "topproto", "o", "options", "o"}

func genRegexWord(t *rapid.T, p *gen.Prof, label string) string {
	var pool []string
	for _, f := range p.Functions {
		if f.Name != "" {
			pool = append(pool, f.Name)
		}
		if f.Filename != "" {
			pool = append(pool, f.Filename)
		}
	}
	pool = append(pool, "main", "zzz", ".")
	w := rapid.SampledFrom(pool).Draw(t, label)
	w = strings.NewReplacer("(", ".", ")", ".", "*", ".", " ", ".", "[", ".", "]", ".", "+", ".", "/", ".").Replace(w)
	return w
}

func genCase(t *rapid.T) *histCase {
	p := rep.GenProfile(t, profOpts)
	c := &histCase{P: p, Real: rapid.IntRange(0, 3).Draw(t, "realfiles") == 0}
	n := rapid.IntRange(2, 9).Draw(t, "nsteps")
	for i := 0; i < n; i++ {
		if rapid.IntRange(0, 2).Draw(t, "isassign") == 0 {
			s := Step{Assign: true}
			switch rapid.IntRange(0, 6).Draw(t, "akind") {
			case 0:
				s.Name = rapid.SampledFrom(boolOpts).Draw(t, "bool")
				if rapid.Bool().Draw(t, "bare") {
					s.Bare, s.Value = true, "true"
				} else {
					s.Value = rapid.SampledFrom([]string{"true", "false", "1", "0", "t", "f"}).Draw(t, "bval")
				}
			case 1:
				ch := rapid.SampledFrom([]string{"cum", "flat", "functions", "filefunctions", "files", "lines", "addresses"}).Draw(t, "choice")
				if rapid.Bool().Draw(t, "barechoice") {
					s.Name, s.Bare, s.Value = ch, true, "true"
				} else {
					s.Name, s.Value = radio[ch], ch
				}
			case 2:
				s.Name = rapid.SampledFrom([]string{"focus", "ignore", "hide", "show", "show_from", "prune_from"}).Draw(t, "filter")
				s.Value = genRegexWord(t, p, "fval")
				if rapid.IntRange(0, 3).Draw(t, "clear") == 0 {
					s.Value = ""
				}
			case 3:
				s.Name = rapid.SampledFrom([]string{"tagfocus", "tagignore", "tagshow", "taghide", "tagroot", "tagleaf"}).Draw(t, "tagopt")
				s.Value = rapid.SampledFrom([]string{"k", "tag", "user", "v", "", "bytes", "k=v"}).Draw(t, "tval")
			case 4:
				s.Name = rapid.SampledFrom([]string{"nodecount", "nodefraction", "edgefraction", "divide_by", "unit"}).Draw(t, "numopt")
				s.Value = map[string][]string{"nodecount": {"-1", "0", "1", "2", "5"}, "nodefraction": {"0", "0.1", "0.5"}, "edgefraction": {"0", "0.2"}, "divide_by": {"1", "2"}, "unit": {"minimum", "auto"}}[s.Name][0]
				s.Value = rapid.SampledFrom(map[string][]string{"nodecount": {"-1", "0", "1", "2", "5"}, "nodefraction": {"0", "0.1", "0.5"}, "edgefraction": {"0", "0.2"}, "divide_by": {"1", "2"}, "unit": {"minimum", "auto"}}[s.Name]).Draw(t, "nval")
				if s.Name != "unit" && rapid.IntRange(0, 3).Draw(t, "badnum") == 0 {
					// a typo: refused with an error message
					s.Value += rapid.SampledFrom([]string{"x", "..", "e", " 1"}).Draw(t, "typo")
					s.Bad = true
				}
			case 5:
				// how file names are shortened for display (derived from source_path when trim_path is empty)
				s.Name = rapid.SampledFrom([]string{"source_path", "source_path", "trim_path"}).Draw(t, "pathopt")
				s.Value = rapid.SampledFrom([]string{"/q/usr", "/q/src", "/q/lib", "", "/usr", "/q/usr:/q/src"}).Draw(t, "pathval")
			default:
				s.Name = "sample_index"
				s.Value = p.SampleTypes[rapid.IntRange(0, len(p.SampleTypes)-1).Draw(t, "si")].Type
			}
			c.Steps = append(c.Steps, s)
			continue
		}
		s := Step{Name: rapid.SampledFrom(cmds).Draw(t, "cmd"), Redir: rapid.SampledFrom([]int{0, 1, 1, 2, 3, 4, 4}).Draw(t, "redir")}
		if (s.Name == "svg" || s.Name == "png") && s.Redir == 0 {
			s.Redir = 1 // needs Graphviz; fails either way
		}
		// callgrind / proto / topproto without a redirection go to a temporary file announced on the
		// message stream ("Generating report in ..."), not to the terminal
		if s.Name == "o" || s.Name == "options" {
			// the option listing: no arguments, printed on the message stream
			s.Redir = 0
			c.Steps = append(c.Steps, s)
			continue
		}
		if s.Name == "peek" {
			s.Args = append(s.Args, genRegexWord(t, p, "peekre"))
		}
		na := rapid.IntRange(0, 3).Draw(t, "nargs")
		for j := 0; j < na; j++ {
			switch rapid.IntRange(0, 3).Draw(t, "argkind") {
			case 0:
				s.Args = append(s.Args, genRegexWord(t, p, "focusarg"))
			case 1:
				s.Args = append(s.Args, "-"+genRegexWord(t, p, "ignorearg"))
			case 2:
				s.Args = append(s.Args, fmt.Sprint(rapid.IntRange(1, 5).Draw(t, "count")))
			default:
				s.Args = append(s.Args, "-cum")
			}
		}
		c.Steps = append(c.Steps, s)
	}
	if rapid.IntRange(0, 5).Draw(t, "pathstory") == 0 && len(p.Functions) > 0 {
		// file names as they are displayed: a report under one source_path, then the same report under another
		p.Functions[0].Filename = "/usr/src/w.c"
		a, b := "/q/usr", "/q/src"
		if rapid.Bool().Draw(t, "pathorder") {
			a, b = b, a
		}
		g := rapid.SampledFrom([]string{"files", "lines", "filefunctions"}).Draw(t, "pathgran")
		c.Steps = append(c.Steps, Step{Assign: true, Name: g, Bare: true, Value: "true"}, Step{Assign: true, Name: "source_path", Value: a},
			Step{Name: "top", Redir: 1}, Step{Assign: true, Name: "source_path", Value: b})
	}
	// make sure the history ends with a command
	c.Steps = append(c.Steps, Step{Name: rapid.SampledFrom([]string{"top", "tree", "traces", "tags"}).Draw(t, "lastcmd"), Redir: 1})
	return c
}

func (s Step) line(i int) string {
	if s.Assign {
		if s.Bare {
			return s.Name
		}
		return s.Name + "=" + s.Value
	}
	l := s.Name
	for _, a := range s.Args {
		l += " " + a
	}
	switch s.Redir {
	case 1:
		l += fmt.Sprintf(" >out%d", i)
	case 2:
		l += fmt.Sprintf(" > out%d", i)
	case 3:
		l += fmt.Sprintf(" >fail%d", i)
	case 4:
		l += " >same"
	}
	return l
}

type sessOut struct {
	files  map[string]string
	stdout string
	res    *pp.Res
}

func runSession(p *profile.Profile, lines []string) sessOut { return runSessionReal(p, lines, false) }

func runSessionReal(p *profile.Profile, lines []string, real bool) sessOut {
	o := sess.RunOpts(p, lines, real)
	return sessOut{files: o.Files, stdout: o.Stdout, res: o.Res}
}

// freshProcess runs the session in a new process (cmd/xsession): the reference that nothing left behind in
// this process can reach.
func freshProcess(p *profile.Profile, lines []string) (*sess.Out, error) {
	helper := filepath.Join(os.Getenv("VERIF_BUILD"), "xsession")
	if _, err := os.Stat(helper); err != nil {
		return nil, err
	}
	var raw bytes.Buffer
	p.WriteUncompressed(&raw)
	in, _ := json.Marshal(struct {
		Prof  []byte
		Lines []string
	}{raw.Bytes(), lines})
	cmd := exec.Command(helper)
	cmd.Stdin = bytes.NewReader(in)
	var stdout, stderr bytes.Buffer
	cmd.Stdout, cmd.Stderr = &stdout, &stderr
	if err := cmd.Run(); err != nil {
		return nil, fmt.Errorf("%v: %.300s", err, stderr.String())
	}
	var out sess.Out
	if err := json.Unmarshal(stdout.Bytes(), &out); err != nil {
		return nil, fmt.Errorf("helper output: %v: %.300s", err, stdout.String())
	}
	return &out, nil
}

// The reference sessions run in the same process as the history, so state that pprof keeps in process
// globals (command table, option table) would contaminate both sides alike. A fixed canary session on a
// fixed profile is therefore recorded when the process is still pristine and repeated after every case:
// whatever a history leaves behind in the process shows up as a changed canary.
var canaryOnce sync.Once
var canaryWant string

func canaryProfile() *profile.Profile {
	f := &profile.Function{ID: 1, Name: "main", SystemName: "main", Filename: "main.go"}
	g := &profile.Function{ID: 2, Name: "work", SystemName: "work", Filename: "work.go"}
	m := &profile.Mapping{ID: 1, Start: 0x400000, Limit: 0x500000, File: "/bin/app", HasFunctions: true}
	l1 := &profile.Location{ID: 1, Mapping: m, Address: 0x400100, Line: []profile.Line{{Function: f, Line: 3}}}
	l2 := &profile.Location{ID: 2, Mapping: m, Address: 0x400200, Line: []profile.Line{{Function: g, Line: 7}}}
	return &profile.Profile{SampleType: []*profile.ValueType{{Type: "samples", Unit: "count"}}, PeriodType: &profile.ValueType{Type: "cpu", Unit: "nanoseconds"}, Period: 1,
		Mapping: []*profile.Mapping{m}, Function: []*profile.Function{f, g}, Location: []*profile.Location{l1, l2},
		Sample: []*profile.Sample{{Location: []*profile.Location{l2, l1}, Value: []int64{3}, Label: map[string][]string{"k": {"v"}}}, {Location: []*profile.Location{l1}, Value: []int64{2}}}}
}

func runCanary() string {
	s := runSession(canaryProfile(), []string{"top", "callgrind", "proto", "topproto", "tree", "peek work", "tags", "traces", "dot >c1", "callgrind >c2", "raw >c3", "list work", "top 1 -cum", "help", "help granularity", "o"})
	var b strings.Builder
	b.WriteString("announcements:\n" + announcements(s.res) + "\nstdout:\n" + s.stdout + "\nfiles:\n")
	for _, n := range []string{"c1", "c2", "c3"} {
		b.WriteString(n + ":\n" + s.files[n] + "\n")
	}
	if s.res.Panic != "" {
		b.WriteString("panic: " + s.res.Panic)
	}
	// what help and the option listing print (after the listing itself ran: it must not reorder anything)
	prints, _ := s.res.UI.Snapshot()
	b.WriteString("\nprinted:\n" + strings.Join(prints, "\n"))
	return b.String()
}

func canaryCheck(lines []string) []string {
	if got := runCanary(); got != canaryWant {
		return []string{fmt.Sprintf("the session %q (or the fixed canary session itself, which also runs redirected and un-redirected commands) left state behind in the process: the fixed session (top, callgrind, proto, topproto, tree, ... on a fixed profile) no longer behaves as it did in the pristine process:\n%s", lines, firstDiffLines(canaryWant, got))}
	}
	return nil
}

func firstDiffLines(a, b string) string {
	la, lb := strings.Split(a, "\n"), strings.Split(b, "\n")
	for i := 0; i < len(la) || i < len(lb); i++ {
		var x, y string
		if i < len(la) {
			x = la[i]
		}
		if i < len(lb) {
			y = lb[i]
		}
		if x != y {
			return fmt.Sprintf("line %d:\n   before %.300q\n   after  %.300q", i, x, y)
		}
	}
	return "(equal)"
}

func check(c *histCase, o *vk.Obs) []string {
	var e vk.Errs
	canaryOnce.Do(func() { canaryWant = runCanary() })
	p := c.P.Build().Copy()
	var lines []string
	for i, s := range c.Steps {
		lines = append(lines, s.line(i))
	}
	if c.Real {
		// pprof's own file writer cannot be made to fail by name
		for i := range c.Steps {
			if c.Steps[i].Redir == 3 {
				c.Steps[i].Redir = 1
			}
		}
		lines = nil
		for i, s := range c.Steps {
			lines = append(lines, s.line(i))
		}
		o.Label("real-output-files")
	}
	full := runSessionReal(p, lines, c.Real)
	if full.res.Panic != "" {
		return []string{fmt.Sprintf("interactive session %q panicked: %s", lines, full.res.Panic)}
	}
	if full.res.Err != nil {
		e.Addf("session failed: %v", full.res.Err)
		return e
	}
	// model: the option assignments in effect before each command (last assignment per option wins;
	// radio choices assign their group)
	var assigns []string
	var wantStdout strings.Builder
	var wantAnn []string
	var lastSame string
	okSame, sameStep := false, -1
	mutating := false
	nontrivial := false
	for i, s := range c.Steps {
		if s.Assign && s.Bad {
			o.Label("rejected-assignment")
			continue
		}
		if s.Assign {
			assigns = append(assigns, s.line(i))
			if s.Name == "focus" || s.Name == "hide" || s.Name == "show" || s.Name == "show_from" || s.Name == "prune_from" || radio[s.Name] == "granularity" || s.Name == "granularity" || s.Name == "tagroot" || s.Name == "noinlines" {
				mutating = true
			}
			continue
		}
		if len(s.Args) > 0 {
			mutating = true
		}
		o.Label("cmd:" + s.Name)
		// the reference session starts with a trivially succeeding command: state that pprof keeps in
		// process-global variables would otherwise leak from the previous reference session into this one
		fresh := runSessionReal(p, append(append([]string{"comments >flush"}, assigns...), s.line(i)), c.Real)
		if fresh.res.Panic != "" {
			return []string{"fresh session panicked: " + fresh.res.Panic}
		}
		if mutating && i > 0 {
			nontrivial = true
		}
		if a := announcements(fresh.res); a != "" {
			wantAnn = append(wantAnn, a)
		}
		name := fmt.Sprintf("out%d", i)
		if s.Redir == 4 {
			// what the shared file holds at the end is what the last command writing to it put there
			if content, ok := fresh.files["same"]; ok {
				// (a command that fails writes nothing and leaves the file as it was)
				lastSame, okSame, sameStep = content, true, i
			}
			continue
		}
		o.LabelIf(s.Redir == 3 || s.Name == "svg" || s.Name == "png", "failing-command")
		if s.Redir == 3 {
			continue
		}
		if s.Redir != 0 {
			a, okA := full.files[name]
			b, okB := fresh.files[name]
			if okA != okB || a != b {
				e.Addf("step %d %q: the command's output depends on the history.\nhistory: %q\noption assignments in effect: %q\n--- in a fresh session with only those assignments\n%.700s\n--- after the history\n%.700s", i, s.line(i), lines[:i], assigns, b, a)
			}
		} else {
			wantStdout.WriteString(fresh.stdout)
		}
	}
	if sameStep >= 0 {
		if got, ok := full.files["same"]; ok != okSame || got != lastSame {
			e.Addf("several commands wrote to the file \"same\"; at the end it does not hold what the last of them (step %d %q) writes in a fresh session.\nhistory: %q\n--- fresh session\n%.700s\n--- after the history\n%.700s", sameStep, c.Steps[sameStep].line(sameStep), lines, lastSame, got)
		}
		o.Label("shared-output-file")
	}
	// where the reports went: the "Generating report in <file>" announcements (temporary file names are numbered
	// by what already exists in the directory, so the number is masked)
	if a, b := announcements(full.res), strings.Join(wantAnn, "\n"); a != b {
		e.Addf("where the reports are written depends on the history (lines %q):\n--- fresh sessions, concatenated\n%s\n--- one session\n%s", lines, b, a)
	}
	if full.stdout != wantStdout.String() {
		e.Addf("what the un-redirected commands print depends on the history (lines %q):\n--- fresh sessions, concatenated\n%.700s\n--- one session\n%.700s", lines, wantStdout.String(), full.stdout)
	}
	// the last command once more against a reference computed in a process of its own
	if last := len(c.Steps) - 1; last >= 0 && !c.Steps[last].Assign && c.Steps[last].Redir == 1 {
		name := fmt.Sprintf("out%d", last)
		ref, err := freshProcess(p, append(append([]string{}, assigns...), c.Steps[last].line(last)))
		switch {
		case err != nil:
			o.Inconcl = append(o.Inconcl, "fresh-process reference unavailable: "+err.Error())
		case ref.Panic != "":
			e.Addf("fresh process panicked: %s", ref.Panic)
		case ref.Files[name] != full.files[name]:
			e.Addf("step %d %q: the command's output differs from what a new pprof process prints for the same option assignments.\nhistory: %q\noption assignments in effect: %q\n--- new process\n%.700s\n--- after the history\n%.700s", last, c.Steps[last].line(last), lines[:last], assigns, ref.Files[name], full.files[name])
		default:
			o.Label("fresh-process-reference")
		}
	}
	o.NonTrivial = nontrivial
	o.LabelIf(mutating, "mutating-report-first")
	for _, m := range canaryCheck(lines) {
		e.Addf("%s", m)
	}
	return e
}

func TestPropHistory(t *testing.T) {
	vk.Main(t, vk.Spec[histCase]{ID: "C10", Facet: "history", Quick: 1500, Thorough: 8000, Gen: genCase, Check: check, Journal: true, CaseTimeout: 120 * time.Second,
		Rule: "histories of 3..10 interactive lines over one generated profile: option assignments (name=value, bare bool, bare or assigned radio choice, filters built from the profile's own names, tag options, numeric options, sample_index) interleaved with report commands carrying their own arguments (focus/ignore words, counts, -cum, redirection in both spellings, to one file name shared by several commands, or stdout; a quarter of the histories let pprof write the files itself in the working directory); oracle: history independence - every command's output equals the output of a fresh session that replays only the option assignments in effect and then that command (files byte for byte, stdout as the in-order concatenation); the last command additionally against the same session run in a new process (cmd/xsession), plus a fixed canary session recorded in the pristine process and repeated after every history (state left behind in process globals); non-trivial = a mutating report or assignment (filters, granularity, tagroot, noinlines, command arguments) precedes a later command"})
}

// ---- facet web: responses depend only on the request ----

type webCase struct {
	P    *gen.Prof
	Reqs []string
}

func genWeb(t *rapid.T) *webCase {
	p := rep.GenProfile(t, profOpts)
	if rapid.Bool().Draw(t, "comments") {
		p.Comments = rapid.SampledFrom([][]string{{"c1"}, {"c1", "c2"}, {"c1", "c1"}, {"#hidden", "shown"}}).Draw(t, "commentlist")
	}
	c := &webCase{P: p}
	n := rapid.IntRange(3, 8).Draw(t, "nreq")
	for i := 0; i < n; i++ {
		path := rapid.SampledFrom([]string{"/top", "/top", "/peek", "/flamegraph", "/source", "/download", "/disasm"}).Draw(t, "path")
		var q []string
		np := rapid.IntRange(0, 3).Draw(t, "nparams")
		for j := 0; j < np; j++ {
			switch rapid.IntRange(0, 5).Draw(t, "pkind") {
			case 0:
				q = append(q, "f="+genRegexWord(t, p, "f"))
			case 1:
				q = append(q, "h="+genRegexWord(t, p, "h"))
			case 2:
				q = append(q, "g="+rapid.SampledFrom([]string{"lines", "files", "addresses", "functions", "filefunctions"}).Draw(t, "g"))
			case 3:
				q = append(q, "sf="+genRegexWord(t, p, "sf"))
			case 4:
				q = append(q, rapid.SampledFrom([]string{"noinlines=t", "calltree=t", "sort=cum", "n=2", "trim=f", "rel=t", "ts=k", "th=k"}).Draw(t, "misc"))
			default:
				q = append(q, "i="+genRegexWord(t, p, "i"))
			}
		}
		r := path
		if len(q) > 0 {
			r += "?" + strings.Join(q, "&")
		}
		c.Reqs = append(c.Reqs, r)
	}
	return c
}

func startWeb(p *profile.Profile) (*pp.Web, error) {
	return pp.StartWeb(pp.Req{Args: []string{"src"}, Sources: map[string]*pp.Source{"src": {Prof: p}}})
}

func checkWeb(c *webCase, o *vk.Obs) []string {
	var e vk.Errs
	p := c.P.Build().Copy()
	type resp struct {
		code int
		body string
	}
	norm := func(path string, body string) string {
		if strings.HasPrefix(path, "/download") {
			q, err := profile.ParseData([]byte(body))
			if err != nil {
				return "unparsable download: " + err.Error()
			}
			return model.Snap(q, model.SnapOpts{})
		}
		return body
	}
	// reference: each request as the first request of a fresh server
	ref := map[string]resp{}
	for _, r := range c.Reqs {
		if _, ok := ref[r]; ok {
			continue
		}
		w, err := startWeb(p)
		if err != nil {
			return nil
		}
		code, body, _, pan := w.Get(r)
		w.Close()
		if pan != "" {
			return []string{fmt.Sprintf("GET %s panicked: %s", r, pan)}
		}
		ref[r] = resp{code, norm(r, body)}
		// the same first request on another fresh server: if even that differs the response is not a
		// function of the request at all (map iteration order shows in the page)
		w2, err := startWeb(p)
		if err == nil {
			code2, body2, _, _ := w2.Get(r)
			w2.Close()
			if code2 != code || norm(r, body2) != norm(r, body) {
				return []string{fmt.Sprintf("GET %s gives two different answers as the first request of two fresh servers:\n%s", r, firstDiff(norm(r, body), norm(r, body2)))}
			}
		}
		o.Label("endpoint:" + strings.SplitN(r, "?", 2)[0])
	}
	w, err := startWeb(p)
	if err != nil {
		return nil
	}
	defer w.Close()
	o.NonTrivial = len(ref) >= 2
	// the downloaded profile is the loaded one
	if _, body, _, _ := w.Get("/download"); true {
		q, err := profile.ParseData([]byte(body))
		if err != nil {
			e.Addf("/download does not parse: %v", err)
		} else {
			// pprof may attach its all-zero fake mapping to a profile without mappings; otherwise the samples are the input's
			canon := func(x *profile.Profile) model.Canon {
				c := model.Canon{}
				for k, v := range model.CanonOf(x, false) {
					c.Add(strings.ReplaceAll(k, `bin("","",+0,0)@`, "nomap@"), v, 1)
				}
				return c
			}
			if a, b := canon(p), canon(q); !a.Equal(b) || len(q.Sample) != len(p.Sample) {
				e.Addf("/download is not the loaded profile:\n%s", a.Diff(b))
			}
		}
	}
	// sequential history
	for i, r := range c.Reqs {
		code, body, _, pan := w.Get(r)
		if pan != "" {
			return []string{fmt.Sprintf("GET %s panicked: %s", r, pan)}
		}
		if want := ref[r]; code != want.code || norm(r, body) != want.body {
			e.Addf("request %d %q answers differently after the requests %q than on a fresh server (status %d vs %d):\n%s", i, r, c.Reqs[:i], code, want.code, firstDiff(want.body, norm(r, body)))
		}
	}
	// concurrent batch
	var wg sync.WaitGroup
	var mu sync.Mutex
	for round := 0; round < 2; round++ {
		for i, r := range c.Reqs {
			wg.Add(1)
			go func(i int, r string) {
				defer wg.Done()
				code, body, _, pan := w.Get(r)
				mu.Lock()
				defer mu.Unlock()
				if pan != "" {
					e.Addf("concurrent GET %s panicked: %s", r, pan)
					return
				}
				if want := ref[r]; code != want.code || norm(r, body) != want.body {
					e.Addf("request %q answers differently when served concurrently with %q than alone (status %d vs %d):\n%s", r, c.Reqs, code, want.code, firstDiff(want.body, norm(r, body)))
				}
			}(i, r)
		}
	}
	wg.Wait()
	return e
}

func firstDiff(a, b string) string {
	la, lb := strings.Split(a, "\n"), strings.Split(b, "\n")
	for i := 0; i < len(la) || i < len(lb); i++ {
		var x, y string
		if i < len(la) {
			x = la[i]
		}
		if i < len(lb) {
			y = lb[i]
		}
		if x != y {
			return fmt.Sprintf("line %d:\n   alone: %.300q\n   here:  %.300q", i+1, x, y)
		}
	}
	return ""
}

func TestPropWeb(t *testing.T) {
	vk.Main(t, vk.Spec[webCase]{ID: "C10", Facet: "web", Quick: 800, Thorough: 5000, Gen: genWeb, Check: checkWeb, Journal: true, CaseTimeout: 120 * time.Second,
		Rule: "sequences and concurrent batches (two rounds of all requests at once) of 3..8 web UI requests over /top /peek /flamegraph /source /download /disasm with drawn query parameters (focus, hide, ignore, show_from, granularity, noinlines, calltree, sort, nodecount, trim, relative, tagshow/taghide); oracle: each response (status and body; /download compared as parsed profile) equals the response to the same request as the first request of a fresh server, and /download returns the loaded profile; non-trivial = at least two distinct requests"})
}

var _ = bytes.Equal

func announcements(res *pp.Res) string { return sess.Announcements(res) }
