// Package rep holds the report-level machinery shared by C04, C05, C07, C08, C17, C18:
// configuration drawing, flag rendering, running one report and comparing with the reference model.
package rep

import (
	"encoding/json"
	"fmt"
	"net/url"
	"regexp"
	"sort"
	"strconv"
	"strings"

	"github.com/google/pprof/profile"
	"github.com/google/pprof/xverif/gen"
	"github.com/google/pprof/xverif/model"
	"github.com/google/pprof/xverif/pp"
	"github.com/google/pprof/xverif/vk"
	"pgregory.net/rapid"
)

type Conf struct {
	Gran        string
	NoInlines   bool
	ShowColumns bool
	SampleIndex string
	Mean        bool
	CallTree    bool
	TagRoot     []string
	TagLeaf     []string
	Format      string // top, text, tree, traces, dot, topproto
}

type ReportCase struct {
	P *gen.Prof
	C Conf
}

var ProfOpts = gen.Opts{Alpha: gen.Plain, MaxSamples: 8, MaxDepth: 6, MaxLines: 3, MinTypes: 1, MaxTypes: 3, AnyIDs: true, NoHugeIDs: true,
	Labels: true, NumLabels: true, EmptyStacks: true, NoMapping: true, Unsym: true, LosslessU: true, Columns: true, Unused: true, NearDup: true}

// GenProfile draws a report-friendly profile: sample units that print losslessly, unit-less numeric labels.
func GenProfile(t *rapid.T, o gen.Opts) *gen.Prof {
	p := gen.Profile(t, o)
	for si := range p.Samples {
		for ni := range p.Samples[si].Nums {
			p.Samples[si].Nums[ni].HasUnits = false
			p.Samples[si].Nums[ni].Units = nil
			for vi, v := range p.Samples[si].Nums[ni].Vals {
				if v == 0 { // 0 without unit cannot be represented in the proto
					p.Samples[si].Nums[ni].Vals[vi] = 1
				}
			}
		}
	}
	if len(p.SampleTypes) > 0 && rapid.Bool().Draw(t, "dst") {
		p.DefaultSampleType = p.SampleTypes[rapid.IntRange(0, len(p.SampleTypes)-1).Draw(t, "dstidx")].Type
	}
	return p
}

var tagKeys = []string{"k", "tag", "user", "thread", "nokey"}

func GenConf(t *rapid.T, p *gen.Prof, formats []string) Conf {
	c := Conf{Gran: rapid.SampledFrom([]string{"functions", "filefunctions", "files", "lines", "addresses"}).Draw(t, "gran"),
		NoInlines: rapid.Bool().Draw(t, "noinlines"), ShowColumns: rapid.Bool().Draw(t, "showcolumns"),
		Mean: rapid.IntRange(0, 3).Draw(t, "mean") == 0, CallTree: rapid.IntRange(0, 2).Draw(t, "calltree") == 0,
		Format: rapid.SampledFrom(formats).Draw(t, "format")}
	switch rapid.IntRange(0, 3).Draw(t, "sikind") {
	case 1:
		c.SampleIndex = strconv.Itoa(rapid.IntRange(0, len(p.SampleTypes)-1).Draw(t, "si"))
	case 2:
		c.SampleIndex = p.SampleTypes[rapid.IntRange(0, len(p.SampleTypes)-1).Draw(t, "siname")].Type
	case 3:
		st := p.SampleTypes[rapid.IntRange(0, len(p.SampleTypes)-1).Draw(t, "siname")].Type
		c.SampleIndex = "inuse_" + strings.TrimPrefix(st, "inuse_")
		if !strings.HasPrefix(st, "inuse_") {
			// "inuse_X" selects a type named X (documented legacy alias)
			c.SampleIndex = "inuse_" + st
		}
	}
	if rapid.IntRange(0, 3).Draw(t, "tagroot") == 0 {
		c.TagRoot = rapid.SliceOfNDistinct(rapid.SampledFrom(tagKeys), 1, 2, rapid.ID[string]).Draw(t, "tagrootkeys")
	}
	if rapid.IntRange(0, 3).Draw(t, "tagleaf") == 0 {
		c.TagLeaf = rapid.SliceOfNDistinct(rapid.SampledFrom(tagKeys), 1, 2, rapid.ID[string]).Draw(t, "tagleafkeys")
	}
	return c
}

func GenCase(t *rapid.T) *ReportCase {
	p := GenProfile(t, ProfOpts)
	c := &ReportCase{P: p, C: GenConf(t, p, []string{"top", "text", "tree", "traces", "dot", "topproto", "peek", "callgrind", "webtop"})}
	if rapid.IntRange(0, 7).Draw(t, "meancancel") == 0 && len(p.SampleTypes) >= 2 && len(p.Locations) >= 3 {
		// an entry that is the leaf of one sample and an inner frame of two samples whose selected values
		// cancel while their counts (the first sample type, the divisor of -mean) do not: raw flat == raw cum,
		// mean flat != mean cum
		n := len(p.SampleTypes)
		mk := func(locs []int, first, rest int64) gen.Sample {
			v := make([]int64, n)
			for i := range v {
				v[i] = rest
			}
			v[0] = first
			return gen.Sample{Locs: locs, Values: v}
		}
		p.Samples = append(p.Samples, mk([]int{0}, 3, 3), mk([]int{1, 0}, 1, 2), mk([]int{2, 0}, 1, -2))
		c.C.Mean = true
		c.C.SampleIndex = strconv.Itoa(n - 1)
	}
	return c
}

// ResolveIndex implements the documented sample_index selection.
func ResolveIndex(p *profile.Profile, si string) (int, bool) {
	if si == "" {
		if p.DefaultSampleType != "" {
			for i, st := range p.SampleType {
				if st.Type == p.DefaultSampleType {
					return i, true
				}
			}
		}
		return len(p.SampleType) - 1, true
	}
	if n, err := strconv.Atoi(si); err == nil {
		return n, n >= 0 && n < len(p.SampleType)
	}
	for i, st := range p.SampleType {
		if st.Type == si || st.Type == strings.TrimPrefix(si, "inuse_") {
			return i, true
		}
	}
	return 0, false
}

// Flags renders the configuration as pprof flags.
func (c Conf) Flags() map[string]string {
	fl := map[string]string{"trim": "false", "output": "out", "noinlines": fmt.Sprint(c.NoInlines), "showcolumns": fmt.Sprint(c.ShowColumns),
		"sample_index": c.SampleIndex, "mean": fmt.Sprint(c.Mean), "call_tree": fmt.Sprint(c.CallTree),
		"tagroot": strings.Join(c.TagRoot, ","), "tagleaf": strings.Join(c.TagLeaf, ",")}
	pp.SetGranularity(fl, c.Gran)
	if c.Format == "peek" {
		fl["peek"] = "."
	} else {
		fl[c.Format] = "true"
	}
	return fl
}

func (c Conf) Model(idx int, byName bool) model.RConf {
	return model.RConf{Gran: c.Gran, NoInlines: c.NoInlines, ShowColumns: c.ShowColumns, SampleIndex: idx, Mean: c.Mean, TagRoot: c.TagRoot, TagLeaf: c.TagLeaf,
		CallTree: c.CallTree && (c.Format == "dot" || c.Format == "callgrind"), ByName: byName, ObjNames: c.Format == "callgrind"}
}

func RowsOf(tr []model.TopRow) []model.Row {
	var out []model.Row
	for _, r := range tr {
		out = append(out, r.Row)
	}
	model.SortRows(out)
	return out
}

func rowsEq(a, b []model.Row) bool { return fmt.Sprint(a) == fmt.Sprint(b) }

func diffRows(want, got []model.Row) string {
	return fmt.Sprintf("\n   want (name flat cum): %v\n   got                 : %v", want, got)
}

func Classify(p *profile.Profile, c Conf, o *vk.Obs, idx int) {
	rec, inl, shared, nz := false, false, false, 0
	used := map[*profile.Location]int{}
	for _, s := range p.Sample {
		seen := map[*profile.Location]bool{}
		for _, l := range s.Location {
			if seen[l] {
				rec = true
			}
			if !seen[l] {
				used[l]++
			}
			seen[l] = true
			if len(l.Line) > 1 {
				inl = true
			}
			o.LabelIf(len(l.Line) == 0, "unsymbolized")
		}
		if s.Value[idx] != 0 {
			nz++
		}
		o.LabelIf(s.Value[idx] < 0, "negative")
		o.LabelIf(len(s.Location) == 0, "empty-stack")
	}
	for _, n := range used {
		if n > 1 {
			shared = true
		}
	}
	o.LabelIf(rec, "recursion")
	o.LabelIf(inl, "inlined")
	o.LabelIf(shared, "shared-location")
	o.Label("fmt:" + c.Format)
	o.Label("gran:" + c.Gran)
	o.LabelIf(c.Mean, "mean")
	o.LabelIf(c.NoInlines, "noinlines")
	o.LabelIf(len(c.TagRoot)+len(c.TagLeaf) > 0, "tagroot/leaf")
	o.LabelIf(c.CallTree && c.Format == "dot", "call_tree")
	o.NonTrivial = (rec || inl || shared) && nz >= 2
}

// CheckReport runs one report and compares it with the reference model.
func CheckReport(gp *gen.Prof, c Conf, o *vk.Obs) []string {
	var e vk.Errs
	p := gp.Build()
	idx, ok := ResolveIndex(p, c.SampleIndex)
	if !ok {
		return []string{"harness: bad sample index"}
	}
	Classify(p, c, o, idx)
	mName := model.BuildReport(p, c.Model(idx, true))
	mFine := model.BuildReport(p, c.Model(idx, false))
	if c.Format == "webtop" {
		return checkWebTop(p, c, mName, mFine)
	}
	res := pp.Run(pp.Req{Flags: c.Flags(), Args: []string{"src"}, Sources: map[string]*pp.Source{"src": {Prof: p}}})
	if res.Panic != "" {
		return []string{"pprof panicked: " + res.Panic}
	}
	if res.Err != nil {
		// legitimate refusals: nothing to report on
		msg := res.Err.Error()
		if strings.Contains(msg, "no matches found") && len(mName.Rows()) == 0 {
			o.Label("error:no-matches")
			return nil
		}
		e.Addf("pprof -%s failed on a valid profile: %v", c.Format, res.Err)
		return e
	}
	out := res.Out("out")
	agree := func(what string, got []model.Row) {
		if !rowsEq(mName.Rows(), got) && !rowsEq(mFine.Rows(), got) {
			e.Addf("%s: flat/cum differ from their definition (granularity %s):%s", what, c.Gran, diffRows(mFine.Rows(), got))
		}
	}
	// Entries whose sums are zero are not listed; an edge touching one cannot be told apart by
	// name from an edge of a listed entry that prints alike, so such names are left to C05/C18.
	elided := map[string]bool{}
	for _, m := range []*model.MReport{mName, mFine} {
		for _, en := range m.Entries {
			if en.Flat.V == 0 && en.Cum.V == 0 {
				elided[en.Name] = true
			}
		}
	}
	filterEdges := func(in []model.EdgeRow, names map[string]bool) []model.EdgeRow {
		var out []model.EdgeRow
		for _, ed := range in {
			if names[ed.From] && names[ed.To] && !elided[ed.From] && !elided[ed.To] {
				out = append(out, ed)
			}
		}
		model.SortEdges(out)
		return out
	}
	edgesAgree := func(what string, got []model.EdgeRow, names map[string]bool) {
		g2 := filterEdges(got, names)
		w1, w2 := filterEdges(mName.EdgeRows(), names), filterEdges(mFine.EdgeRows(), names)
		if fmt.Sprint(g2) != fmt.Sprint(w1) && fmt.Sprint(g2) != fmt.Sprint(w2) {
			e.Addf("%s: edge weights differ from their definition:\n   want %v\n   got  %v", what, w2, g2)
		}
	}
	checkLegend := func(lg *model.Legend, rows []model.Row) {
		if !lg.HasShowing {
			e.Addf("no 'Showing nodes accounting for' line")
			return
		}
		if int64(lg.Total) != mFine.Total {
			e.Addf("report total %v differs from the sum of absolute sample values %d", lg.TotalStr, mFine.Total)
		}
		if int64(lg.Shown) != model.FlatSum(rows) {
			e.Addf("'accounting for' %s differs from the sum of flat values shown %d", lg.ShownStr, model.FlatSum(rows))
		}
	}
	switch c.Format {
	case "top", "text":
		lg, rows, err := model.ParseTop(out)
		if err != nil {
			e.Addf("cannot parse -top output: %v\n%s", err, out)
			break
		}
		agree("-"+c.Format, RowsOf(rows))
		checkLegend(lg, RowsOf(rows))
	case "tree", "peek":
		t, err := model.ParseTree(out)
		if err != nil {
			e.Addf("cannot parse -tree output: %v\n%s", err, out)
			break
		}
		agree("-"+c.Format, RowsOf(t.Rows))
		checkLegend(t.Legend, RowsOf(t.Rows))
		names := map[string]bool{}
		for _, r := range t.Rows {
			names[r.Name] = true
		}
		edgesAgree("-"+c.Format+" (callers)", t.In, names)
		edgesAgree("-"+c.Format+" (callees)", t.Out, names)
	case "traces":
		_, trs, err := model.ParseTraces(out)
		if err != nil {
			e.Addf("cannot parse -traces output: %v\n%s", err, out)
			break
		}
		want := mFine.Traces
		if len(trs) != len(want) {
			e.Addf("-traces: %d samples printed, %d samples have frames", len(trs), len(want))
			break
		}
		for i := range want {
			if trs[i].Value != want[i].Value || strings.Join(trs[i].Names, "|") != strings.Join(want[i].Names, "|") {
				e.Addf("-traces sample %d: want %d %q got %d %q", i, want[i].Value, want[i].Names, trs[i].Value, trs[i].Names)
			}
		}
	case "topproto":
		tp, err := profile.ParseData([]byte(out))
		if err != nil {
			e.Addf("-topproto output does not parse: %v", err)
			break
		}
		var got, w1, w2 []string
		for _, s := range tp.Sample {
			got = append(got, fmt.Sprintf("%d/%d", s.Value[1], s.Value[0]))
		}
		for _, r := range mName.Rows() {
			w1 = append(w1, fmt.Sprintf("%d/%d", r.Flat, r.Cum))
		}
		for _, r := range mFine.Rows() {
			w2 = append(w2, fmt.Sprintf("%d/%d", r.Flat, r.Cum))
		}
		sort.Strings(got)
		sort.Strings(w1)
		sort.Strings(w2)
		if fmt.Sprint(got) != fmt.Sprint(w1) && fmt.Sprint(got) != fmt.Sprint(w2) {
			e.Addf("-topproto flat/cum pairs differ: want %v got %v", w2, got)
		} else if fmt.Sprint(got) == fmt.Sprint(w2) {
			// ... and every pair sits on the entry it belongs to: the function name and file the sample carries
			var gotN, wantN []string
			for _, s := range tp.Sample {
				name, file := "", ""
				if len(s.Location) == 1 && len(s.Location[0].Line) == 1 && s.Location[0].Line[0].Function != nil {
					name, file = s.Location[0].Line[0].Function.Name, s.Location[0].Line[0].Function.Filename
				}
				gotN = append(gotN, fmt.Sprintf("%q %q %d/%d", name, file, s.Value[1], s.Value[0]))
			}
			for _, en := range mFine.Entries {
				if en.Flat.V == 0 && en.Cum.V == 0 {
					continue
				}
				wantN = append(wantN, fmt.Sprintf("%q %q %d/%d", en.F.Name, en.F.File, en.Flat.Val(), en.Cum.Val()))
			}
			sort.Strings(gotN)
			sort.Strings(wantN)
			if fmt.Sprint(gotN) != fmt.Sprint(wantN) {
				e.Addf("-topproto: the entries (function name, file, flat/cum) differ:\n   want %v\n   got  %v", wantN, gotN)
			}
		}
	case "callgrind":
		for _, m := range CheckCallgrind(out, p, c, idx) {
			e.Addf("%s", m)
		}
	case "dot":
		rows, edges, lg, err := DotRows(out)
		if err != nil {
			e.Addf("cannot interpret -dot output: %v\n%s", err, out)
			break
		}
		agree("-dot", rows)
		checkLegend(lg, rows)
		names := map[string]bool{}
		for _, r := range rows {
			names[r.Name] = true
		}
		edgesAgree("-dot", edges, names)
	}
	return e
}

// DotRows extracts (name, flat, cum) per node and (from,to,weight) per edge from DOT output.
func DotRows(out string) ([]model.Row, []model.EdgeRow, *model.Legend, error) {
	g, err := model.ParseDot(out)
	if err != nil {
		return nil, nil, nil, err
	}
	lg := &model.Legend{}
	var rows []model.Row
	nameOf := map[string]string{}
	for _, id := range g.NodeSeq {
		n := g.Nodes[id]
		if !strings.HasPrefix(id, "N") || strings.Contains(id, "_") {
			// legend node or nodelet
			if lab, ok := n.Attrs["label"]; ok && n.Attrs["shape"] == "box" && n.Attrs["fontsize"] == "16" {
				for _, l := range strings.Split(lab, `\l`) {
					model.ParseLegendLine(l, lg)
				}
			}
			continue
		}
		if _, err := strconv.Atoi(id[1:]); err != nil {
			continue
		}
		tip := n.Attrs["tooltip"]
		i := strings.LastIndex(tip, " (")
		if i < 0 || !strings.HasSuffix(tip, ")") {
			return nil, nil, nil, fmt.Errorf("node %s: unexpected tooltip %q", id, tip)
		}
		name := strings.ReplaceAll(tip[:i], `\\`, `\`)
		cum, _, err := model.ParseValue(tip[i+2 : len(tip)-1])
		if err != nil {
			return nil, nil, nil, fmt.Errorf("node %s: %v", id, err)
		}
		// flat: last lines of the label
		lab := n.Attrs["label"]
		parts := strings.Split(lab, `\n`)
		last := parts[len(parts)-1]
		var flatS string
		switch {
		case strings.HasPrefix(last, "of "):
			flatS = parts[len(parts)-2]
		case strings.HasPrefix(last, "0 of "):
			flatS = "0"
		default:
			flatS = last
		}
		flatS = strings.Fields(flatS)[0]
		flat, _, err := model.ParseValue(flatS)
		if err != nil {
			return nil, nil, nil, fmt.Errorf("node %s: label %q: %v", id, lab, err)
		}
		nameOf[id] = name
		rows = append(rows, model.Row{Name: name, Flat: int64(flat), Cum: int64(cum)})
	}
	model.SortRows(rows)
	var edges []model.EdgeRow
	for _, ed := range g.Edges {
		if strings.Contains(ed.To, "_") {
			continue // nodelet edge
		}
		lab := strings.TrimSpace(strings.Split(ed.Attrs["label"], `\n`)[0])
		w, _, err := model.ParseValue(lab)
		if err != nil {
			return nil, nil, nil, fmt.Errorf("edge %s->%s: label %q: %v", ed.From, ed.To, ed.Attrs["label"], err)
		}
		from, ok1 := nameOf[ed.From]
		to, ok2 := nameOf[ed.To]
		if !ok1 || !ok2 {
			edges = append(edges, model.EdgeRow{From: "\x00undeclared:" + ed.From, To: "\x00undeclared:" + ed.To, W: int64(w)})
			continue
		}
		edges = append(edges, model.EdgeRow{From: from, To: to, W: int64(w)})
	}
	return rows, edges, lg, nil
}

var cgSuffix = regexp.MustCompile(` \[\d+/\d+\]$`)

// CheckCallgrind compares the cost lines and the call costs of -callgrind output with the reference
// report at address granularity (callgrind output is per address and line).
func CheckCallgrind(out string, p *profile.Profile, c Conf, idx int) []string {
	var e vk.Errs
	cg, err := model.ParseCallgrind(out)
	if err != nil {
		return []string{"-callgrind output violates the format: " + err.Error()}
	}
	mc := c.Model(idx, false)
	mc.Gran, mc.ObjNames = "addresses", true
	mc.CallTree = c.CallTree
	m := model.BuildReport(p, mc)
	oneLine := strings.NewReplacer("\n", " ", "\r", " ")
	var want, got, wantCalls, gotCalls []string
	for _, en := range m.Entries {
		if en.Flat.V == 0 && en.Cum.V == 0 {
			continue
		}
		if en.F.Name == "" && en.F.File == "" && en.F.Addr == 0 && en.F.Line == 0 && en.Flat.Val() == 0 {
			continue // prints as an all-empty zero-cost line, which the reader below skips as well
		}
		want = append(want, fmt.Sprintf("%q %q @%x:%d =%d", oneLine.Replace(en.F.Name), oneLine.Replace(en.F.File), en.F.Addr, en.F.Line, en.Flat.Val()))
	}
	for k, a := range m.Edges {
		from, to := m.Entries[k[0]], m.Entries[k[1]]
		if from.Flat.V == 0 && from.Cum.V == 0 || to.Flat.V == 0 && to.Cum.V == 0 {
			continue
		}
		wantCalls = append(wantCalls, fmt.Sprintf("%q@%x:%d -> %q = %d", oneLine.Replace(from.F.Name), from.F.Addr, from.F.Line, oneLine.Replace(to.F.Name), a.Val()))
	}
	for _, r := range cg.Records {
		if !(r.Fn == "" && r.File == "" && r.Cost == 0 && r.Addr == 0 && r.Line == 0) {
			got = append(got, fmt.Sprintf("%q %q @%x:%d =%d", r.Fn, r.File, r.Addr, r.Line, r.Cost))
		}
		for _, cl := range r.Calls {
			gotCalls = append(gotCalls, fmt.Sprintf("%q@%x:%d -> %q = %d", r.Fn, r.Addr, r.Line, cgSuffix.ReplaceAllString(cl.Fn, ""), cl.Cost))
		}
	}
	sort.Strings(want)
	sort.Strings(got)
	sort.Strings(wantCalls)
	sort.Strings(gotCalls)
	if strings.Join(want, "|") != strings.Join(got, "|") {
		e.Addf("-callgrind functions/positions/costs differ from the report:\n   want %v\n   got  %v", want, got)
	}
	if strings.Join(wantCalls, "|") != strings.Join(gotCalls, "|") {
		e.Addf("-callgrind call costs differ from the edge weights of the report:\n   want %v\n   got  %v", wantCalls, gotCalls)
	}
	return e
}

// checkWebTop reads the table data of the web UI's /top page (options given as URL parameters where the
// web UI has one, as start-up flags otherwise) and compares it with the reference report.
func checkWebTop(p *profile.Profile, c Conf, mName, mFine *model.MReport) []string {
	var e vk.Errs
	fl := map[string]string{"trim": "false", "tagroot": strings.Join(c.TagRoot, ","), "tagleaf": strings.Join(c.TagLeaf, ",")}
	w, err := pp.StartWeb(pp.Req{Flags: fl, Args: []string{"src"}, Sources: map[string]*pp.Source{"src": {Prof: p}}})
	if err != nil {
		return []string{"web interface did not start: " + err.Error()}
	}
	defer w.Close()
	q := url.Values{}
	q.Set("g", c.Gran)
	if c.NoInlines {
		q.Set("noinlines", "t")
	}
	if c.ShowColumns {
		q.Set("showcolumns", "t")
	}
	if c.SampleIndex != "" {
		q.Set("si", c.SampleIndex)
	}
	if c.Mean {
		q.Set("mean", "t")
	}
	if c.CallTree {
		q.Set("calltree", "t")
	}
	code, body, _, pan := w.Get("/top?" + q.Encode())
	if pan != "" {
		return []string{"/top handler panicked: " + pan}
	}
	if code != 200 {
		if len(mName.Rows()) == 0 {
			return nil
		}
		e.Addf("/top?%s answered %d: %.300s", q.Encode(), code, body)
		return e
	}
	i := strings.LastIndex(body, "makeTopTable(")
	if i < 0 {
		return []string{"/top page has no makeTopTable(...) call"}
	}
	rest := body[i+len("makeTopTable("):]
	j := strings.Index(rest, ");")
	k := strings.Index(rest, ",")
	if j < 0 || k < 0 || k > j {
		return []string{"/top page: cannot delimit the makeTopTable arguments"}
	}
	total, err := strconv.ParseInt(strings.TrimSpace(rest[:k]), 10, 64)
	if err != nil {
		return []string{"/top page: total is not a number: " + rest[:k]}
	}
	var items []struct {
		Name      string
		Flat, Cum int64
	}
	if err := json.Unmarshal([]byte(rest[k+1:j]), &items); err != nil {
		return []string{"/top page: table data is not JSON: " + err.Error()}
	}
	var got []model.Row
	for _, it := range items {
		got = append(got, model.Row{Name: it.Name, Flat: it.Flat, Cum: it.Cum})
	}
	model.SortRows(got)
	if !rowsEq(mName.Rows(), got) && !rowsEq(mFine.Rows(), got) {
		e.Addf("web /top: flat/cum differ from their definition (granularity %s):%s", c.Gran, diffRows(mFine.Rows(), got))
	}
	if total != mFine.Total {
		e.Addf("web /top: total %d differs from the sum of absolute sample values %d", total, mFine.Total)
	}
	return e
}
