package c13

import (
	"debug/elf"
	"fmt"
	"os"
	"os/exec"
	"path/filepath"
	"sort"
	"strconv"
	"strings"
	"sync"
	"testing"

	"github.com/google/pprof/internal/binutils"
	"github.com/google/pprof/xverif/vk"
	"pgregory.net/rapid"
)

// ---- facet realelf: binaries produced by the installed gcc/ld, same loader model and oracle ----

type realBin struct {
	path string
	dyn  bool
	segs []Seg
	syms []Sym // text symbols from nm, sorted
	all  []Sym
}

var (
	realOnce sync.Once
	realBins []realBin
	realNote string
)

const realProg = `
#include <stdio.h>
static int helper(int x) { return x * 3 + 1; }
int exported_one(int x) { int s = 0; for (int i = 0; i < x; i++) s += helper(i); return s; }
int exported_two(int x) { return exported_one(x) ^ 0x55; }
int big_table[4096];
/* user programs may define symbols the kernel also has; the file names below contain "linux" (GOOS-style) */
void _stext(void) {}
void _text(void) {}
int main(int argc, char **argv) { printf("%d\n", exported_two(argc) + big_table[argc]); return 0; }
`

func buildReal() {
	dir := filepath.Join(scratchDir(), "real")
	os.MkdirAll(dir, 0o755)
	src := filepath.Join(dir, "prog.c")
	os.WriteFile(src, []byte(realProg), 0o644)
	gcc, err := exec.LookPath("gcc")
	if err != nil {
		realNote = "gcc not installed: real-binary differential skipped"
		return
	}
	variants := [][]string{
		{"-O1", "-pie", "-fPIE"},
		{"-O1", "-no-pie"},
		{"-O1", "-shared", "-fPIC"},
		{"-O1", "-pie", "-fPIE", "-Wl,-z,separate-code"},
		{"-O1", "-pie", "-fPIE", "-Wl,-z,noseparate-code"},
		{"-O1", "-no-pie", "-Wl,-z,noseparate-code"},
		{"-O1", "-pie", "-fPIE", "-Wl,-z,max-page-size=0x200000"},
		{"-O1", "-no-pie", "-static"},
	}
	for i, v := range variants {
		out := filepath.Join(dir, fmt.Sprintf("bin%d_linux_amd64", i))
		args := append(append([]string{}, v...), "-o", out, src)
		if err := exec.Command(gcc, args...).Run(); err != nil {
			continue
		}
		ef, err := elf.Open(out)
		if err != nil {
			continue
		}
		rb := realBin{path: out, dyn: ef.Type == elf.ET_DYN}
		for _, p := range ef.Progs {
			if p.Type == elf.PT_LOAD {
				rb.segs = append(rb.segs, Seg{Off: p.Off, Vaddr: p.Vaddr, Paddr: p.Paddr, Filesz: p.Filesz, Memsz: p.Memsz, Flags: uint32(p.Flags), Align: p.Align})
			}
		}
		ef.Close()
		nmOut, err := exec.Command("nm", "--numeric-sort", "--print-size", "--format=posix", out).Output()
		if err != nil {
			continue
		}
		for _, line := range strings.Split(string(nmOut), "\n") {
			f := strings.Split(strings.TrimSpace(line), " ")
			if len(f) != 4 {
				continue
			}
			a, err1 := strconv.ParseUint(f[2], 16, 64)
			sz, err2 := strconv.ParseUint(f[3], 16, 64)
			if err1 != nil || err2 != nil {
				continue
			}
			s := Sym{Name: f[0], Type: f[1], Addr: a, Size: sz}
			rb.all = append(rb.all, s)
			if (f[1] == "T" || f[1] == "t") && sz > 0 {
				rb.syms = append(rb.syms, s)
			}
		}
		sort.SliceStable(rb.all, func(i, j int) bool { return rb.all[i].Addr < rb.all[j].Addr })
		if len(rb.segs) > 0 && len(rb.syms) > 0 {
			realBins = append(realBins, rb)
		}
	}
	if len(realBins) == 0 {
		realNote = "gcc produced no usable binary: real-binary differential skipped"
	}
}

type realCase struct {
	Bin     int
	Bias    uint64
	Split   uint64 // selector for a page-aligned sub-range
	SymSel  []uint64
	OffSel  []uint64
	OneOpen bool
}

func genReal(t *rapid.T) *realCase {
	return &realCase{Bin: rapid.IntRange(0, 15).Draw(t, "bin"), Bias: uint64(rapid.SampledFrom([]int{0x555555554000, 0x7f1234560000, 0x10000000, 0x7ffff7dc0000}).Draw(t, "bias")),
		Split: rapid.Uint64().Draw(t, "split"), SymSel: rapid.SliceOfN(rapid.Uint64(), 1, 5).Draw(t, "syms"), OffSel: rapid.SliceOfN(rapid.Uint64(), 1, 5).Draw(t, "offs"), OneOpen: rapid.Bool().Draw(t, "oneopen")}
}

func checkReal(c *realCase, o *vk.Obs) []string {
	var e vk.Errs
	realOnce.Do(buildReal)
	if len(realBins) == 0 {
		o.Label("skipped")
		o.Inconcl = append(o.Inconcl, realNote)
		return nil
	}
	rb := realBins[c.Bin%len(realBins)]
	bias := c.Bias
	if !rb.dyn {
		bias = 0
	}
	o.Label(filepath.Base(rb.path))
	o.NonTrivial = true
	bu := &binutils.Binutils{}
	bu.SetTools("addr2line:/nonexistent,llvm-symbolizer:/nonexistent,objdump:/nonexistent")
	bu.SetFastSymbolization(true)
	for k, sel := range c.SymSel {
		sym := rb.syms[sel%uint64(len(rb.syms))]
		la := sym.Addr + c.OffSel[k%len(c.OffSel)]%sym.Size
		// the executable segment containing the symbol
		var tg *Seg
		for i := range rb.segs {
			s := &rb.segs[i]
			if s.Flags&1 != 0 && la >= s.Vaddr && la < s.Vaddr+s.Filesz {
				tg = s
			}
		}
		if tg == nil {
			continue
		}
		s0 := bias + pagedown(tg.Vaddr)
		pages := (pageup(tg.Vaddr+tg.Filesz) - pagedown(tg.Vaddr)) / page
		start, limit, offset := s0, s0+pages*page, pagedown(tg.Off)
		if c.Split%3 == 0 && pages > 1 {
			// a page-aligned split that still contains the address
			pg := (bias + la - s0) / page
			lo := pg - (c.Split/3)%(pg+1)
			hi := pg + 1 + (c.Split/7)%(pages-pg)
			start, limit, offset = s0+lo*page, s0+hi*page, pagedown(tg.Off)+lo*page
			o.Label("split-mapping")
		}
		of, err := bu.Open(rb.path, start, limit, offset, "")
		if err != nil {
			e.Addf("%s: Open(%#x,%#x,%#x): %v", rb.path, start, limit, offset, err)
			continue
		}
		a := bias + la
		got, err := of.ObjAddr(a)
		if err != nil {
			e.Addf("%s: ObjAddr(%#x) in mapping [%#x,%#x) offset %#x of segment %+v fails: %v", filepath.Base(rb.path), a, start, limit, offset, *tg, err)
			of.Close()
			continue
		}
		if got != la {
			e.Addf("%s: ObjAddr(%#x) = %#x, link-time address is %#x (bias %#x, mapping [%#x,%#x) offset %#x, segment %+v)", filepath.Base(rb.path), a, got, la, bias, start, limit, offset, *tg)
		}
		frames, err := of.SourceLine(a)
		of.Close()
		if err != nil {
			e.Addf("%s: SourceLine(%#x): %v", filepath.Base(rb.path), a, err)
			continue
		}
		// expected: a symbol at the greatest start <= la
		best := uint64(0)
		found := false
		for _, s := range rb.all {
			if s.Addr <= la {
				best, found = s.Addr, true
			}
		}
		if !found || len(frames) == 0 {
			if found {
				e.Addf("%s: no symbol for %#x, expected the one starting at %#x", filepath.Base(rb.path), la, best)
			}
			continue
		}
		ok := false
		var names []string
		for _, s := range rb.all {
			if s.Addr == best {
				names = append(names, s.Name)
				if s.Name == frames[0].Func {
					ok = true
				}
			}
		}
		if !ok {
			e.Addf("%s: address %#x (inside %s) symbolized as %q, the symbols starting at the greatest address not above it are %v", filepath.Base(rb.path), la, sym.Name, frames[0].Func, names)
		}
	}
	return e
}

func TestPropRealELF(t *testing.T) {
	vk.Main(t, vk.Spec[realCase]{ID: "C13", Facet: "realelf", Quick: 150, Thorough: 1500, Gen: genReal, Check: checkReal,
		Rule: "binaries built by the installed gcc/ld from one C program (PIE, non-PIE, shared object, separate-code / noseparate-code, 2 MiB max-page-size, static), their real program headers read with debug/elf and their real symbols with nm; a drawn load bias, the loader-model mapping of the executable segment or a page-aligned split of it, and addresses inside real functions; oracle: ObjAddr equals the link-time address and fast symbolization names a symbol starting at the greatest address not above it; skipped (and reported as such) when gcc is unavailable; every case is non-trivial"})
}
