package c13

import (
	"fmt"
	"os"
	"path/filepath"
	"testing"

	"github.com/google/pprof/internal/binutils"
	"github.com/google/pprof/profile"
	"github.com/google/pprof/xverif/vk"
	"pgregory.net/rapid"
)

// ---- facet twoprofiles: two runs merged before their addresses are translated ----
//
// pprof merges its sources first and symbolizes the merged profile. Two runs with different load biases may put
// DIFFERENT binaries at the same runtime range; each sample must still be translated with the mapping (file,
// start, offset) of the binary it was taken in.

type twoCase struct {
	A, B     *elfCase
	SameAddr bool // the two profiles sample the same absolute address (when it lies in both mappings)
	Order    bool // merge B first
}

func genTwo(t *rapid.T) *twoCase {
	a, b := genELF(t), genELF(t)
	for _, e := range []*elfCase{a, b} {
		e.Whole, e.SplitLo = false, 0
		if e.Segs[e.Target].Flags&1 == 0 {
			for i, s := range e.Segs {
				if s.Flags&1 != 0 {
					e.Target = i
					break
				}
			}
		}
		tg := e.Segs[e.Target]
		e.SplitHi = int((pageup(tg.Vaddr+tg.Filesz) - pagedown(tg.Vaddr)) / page)
	}
	b.Dyn = true
	return &twoCase{A: a, B: b, SameAddr: rapid.IntRange(0, 3).Draw(t, "sameaddr") != 0, Order: rapid.Bool().Draw(t, "order")}
}

func checkTwo(c *twoCase, o *vk.Obs) []string {
	var e vk.Errs
	a, b := c.A, c.B
	startA, limitA, offA := a.mapping()
	// load B where A's mapping starts in the other run
	tb := b.Segs[b.Target]
	if startA < pagedown(tb.Vaddr) {
		o.Label("no-common-range")
		return nil
	}
	b.Bias = startA - pagedown(tb.Vaddr)
	startB, limitB, offB := b.mapping()
	pathA, pathB := filepath.Join(scratchDir(), "runA.elf"), filepath.Join(scratchDir(), "runB.elf")
	if os.WriteFile(pathA, a.bytes(), 0o644) != nil || os.WriteFile(pathB, b.bytes(), 0o644) != nil {
		return nil
	}
	ta := a.Segs[a.Target]
	loA, hiA := max(a.Bias+ta.Vaddr, startA), min(a.Bias+ta.Vaddr+ta.Filesz, limitA)
	loB, hiB := max(b.Bias+tb.Vaddr, startB), min(b.Bias+tb.Vaddr+tb.Filesz, limitB)
	if loA >= hiA || loB >= hiB {
		o.Label("mapping-misses-segment-data")
		return nil
	}
	addrA := loA + (hiA-loA)/2
	addrB := loB + (hiB-loB)/3
	if c.SameAddr && addrA >= loB && addrA < hiB {
		addrB = addrA
		o.Label("same-absolute-address-in-both-runs")
	}
	mk := func(path string, start, limit, off, addr uint64, v int64) *profile.Profile {
		m := &profile.Mapping{ID: 1, Start: start, Limit: limit, Offset: off, File: path}
		l := &profile.Location{ID: 1, Mapping: m, Address: addr}
		return &profile.Profile{SampleType: []*profile.ValueType{{Type: "samples", Unit: "count"}}, PeriodType: &profile.ValueType{Type: "cpu", Unit: "nanoseconds"}, Period: 1,
			Mapping: []*profile.Mapping{m}, Location: []*profile.Location{l}, Sample: []*profile.Sample{{Location: []*profile.Location{l}, Value: []int64{v}}}}
	}
	pa, pb := mk(pathA, startA, limitA, offA, addrA, 1), mk(pathB, startB, limitB, offB, addrB, 2)
	srcs := []*profile.Profile{pa, pb}
	if c.Order {
		srcs = []*profile.Profile{pb, pa}
	}
	merged, err := profile.Merge(srcs)
	if err != nil {
		return []string{"Merge: " + err.Error()}
	}
	o.NonTrivial = true
	bu := &binutils.Binutils{}
	bu.SetTools("nm:/nonexistent,addr2line:/nonexistent,llvm-symbolizer:/nonexistent,objdump:/nonexistent")
	seen := map[int64]bool{}
	for _, s := range merged.Sample {
		for bit, run := range map[int64]struct {
			e          *elfCase
			path       string
			addr, bias uint64
		}{1: {a, pathA, addrA, a.Bias}, 2: {b, pathB, addrB, b.Bias}} {
			if s.Value[0]&bit == 0 && s.Value[0] != 3 {
				continue
			}
			seen[bit] = true
			if len(s.Location) != 1 || s.Location[0].Mapping == nil {
				e.Addf("run %d: merged sample has no single mapped location: %+v", bit, s.Location)
				continue
			}
			l := s.Location[0]
			if s.Value[0] == 3 || l.Mapping.File != run.path {
				e.Addf("run %d: the sample taken at %#x in %s (load bias %#x) is attributed after the merge to %s [%#x,%#x) offset %#x, address %#x (merged sample value %d)", bit, run.addr, filepath.Base(run.path), run.bias, filepath.Base(l.Mapping.File), l.Mapping.Start, l.Mapping.Limit, l.Mapping.Offset, l.Address, s.Value[0])
				continue
			}
			of, err := bu.Open(l.Mapping.File, l.Mapping.Start, l.Mapping.Limit, l.Mapping.Offset, "")
			if err != nil {
				o.Label("open-error")
				continue
			}
			got, err := of.ObjAddr(l.Address)
			of.Close()
			if err != nil {
				o.Label("error-instead-of-address")
				continue
			}
			if want := run.addr - run.bias; got != want {
				if run.e.Dyn && kernelHeuristicHit(run.e, l.Address, l.Mapping.Start, l.Mapping.Offset) && vk.Known("C13-kernel-heuristic-collision") {
					o.Exclude("C13-kernel-heuristic-collision")
					continue
				}
				e.Addf("run %d: after the merge the sample at %#x translates to %#x, its link-time address is %#x (bias %#x; merged mapping [%#x,%#x) offset %#x)", bit, run.addr, got, want, run.bias, l.Mapping.Start, l.Mapping.Limit, l.Mapping.Offset)
			}
		}
	}
	if !seen[1] || !seen[2] {
		e.Addf("a run's sample is missing from the merged profile (values %v)", fmt.Sprint(len(merged.Sample)))
	}
	return e
}

func TestPropTwoProfiles(t *testing.T) {
	vk.Main(t, vk.Spec[twoCase]{ID: "C13", Facet: "twoprofiles", Quick: 800, Thorough: 6000, Gen: genTwo, Check: checkTwo,
		Rule: "two synthetic ELF files, each with one unsymbolized sample in an executable segment, from two runs whose load biases put the two mappings at the same runtime start (three quarters of the cases sample the same absolute address when it lies in both), merged with profile.Merge in either order and then translated with binutils; oracle: every sample stays attributed to the binary it was taken in, and ObjAddr is an error or runtime address minus that run's bias; every case that has a common range is non-trivial"})
}
