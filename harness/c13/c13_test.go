package c13

import (
	"encoding/binary"
	"fmt"
	"github.com/google/pprof/internal/plugin"
	"github.com/google/pprof/profile"
	"os"
	"path/filepath"
	"sort"
	"strings"
	"testing"

	"github.com/google/pprof/internal/binutils"
	"github.com/google/pprof/xverif/vk"
	"pgregory.net/rapid"
)

const page = 0x1000

type Seg struct {
	Off, Vaddr, Paddr, Filesz, Memsz uint64
	Flags                            uint32 // PF_X=1 PF_W=2 PF_R=4
	Align                            uint64
}

type elfCase struct {
	Dyn    bool
	Segs   []Seg
	Bias   uint64
	Target int // index of the executable segment the mapping belongs to
	// mapping = pages [SplitLo, SplitHi) of the segment's loader mapping (page indexes)
	SplitLo, SplitHi int
	Whole            bool     // instead: one mapping covering the whole file image (merged mapping)
	AddrSel          []uint64 // selectors for addresses inside the mapping
	OneOpen          bool     // translate all addresses through a single ObjFile
	SLFirst          bool     // ask the ObjFile for the source line of each address before translating it
}

func pagedown(x uint64) uint64 { return x &^ (page - 1) }
func pageup(x uint64) uint64   { return (x + page - 1) &^ (page - 1) }

func genELF(t *rapid.T) *elfCase {
	c := &elfCase{Dyn: rapid.IntRange(0, 3).Draw(t, "dyn") != 0}
	n := rapid.IntRange(1, 4).Draw(t, "nseg")
	packed := rapid.Bool().Draw(t, "packed") // lld style: file offsets continue without padding
	huge := rapid.IntRange(0, 4).Draw(t, "hugealign") == 0
	align := uint64(page)
	if huge {
		align = 0x200000
	}
	first := rapid.SampledFrom([]uint64{0, 0x400000, 0x200000, 0x10000, 0x7000}).Draw(t, "firstvaddr")
	if c.Dyn && rapid.Bool().Draw(t, "dynzero") {
		first = 0
	}
	if !c.Dyn && first < 0x10000 {
		first = 0x400000 // a fixed-address executable is never linked at page zero (that shape is the remapped-kernel heuristic)
	}
	off, vaddr := uint64(0), first
	xseen := false
	for i := 0; i < n; i++ {
		fsz := uint64(rapid.SampledFrom([]int{0x10, 0x234, 0x1000, 0x1001, 0x2abc, 0x5000, 0x20000}).Draw(t, "filesz"))
		s := Seg{Filesz: fsz, Memsz: fsz, Align: align}
		switch rapid.IntRange(0, 3).Draw(t, "flags") {
		case 0:
			s.Flags = 4
		case 1, 2:
			s.Flags = 5
			xseen = true
		case 3:
			s.Flags = 6
			if rapid.Bool().Draw(t, "bss") {
				s.Memsz += uint64(rapid.SampledFrom([]int{0x10, 0x1000, 0x3000}).Draw(t, "bsssz"))
			}
		}
		if i == n-1 && !xseen {
			s.Flags = 5
		}
		if i > 0 {
			if packed {
				// next segment starts on a new page in memory but continues in the file
				vaddr = pageup(vaddr) + off%page
				if huge {
					vaddr = (vaddr+align-1)&^(align-1) + off%align
				}
			} else {
				off = pageup(off)
				vaddr = pageup(vaddr)
				if huge {
					off = (off + align - 1) &^ (align - 1)
					vaddr = (vaddr + align - 1) &^ (align - 1)
				}
				// separate-code layouts may leave gaps
				if rapid.Bool().Draw(t, "gap") {
					g := uint64(rapid.IntRange(1, 3).Draw(t, "gappages")) * page
					vaddr += g
					if rapid.Bool().Draw(t, "filegap") {
						off += g
					}
				}
			}
		} else if rapid.Bool().Draw(t, "firstoff") && !huge {
			// first segment not at file offset 0 (headers in a separate, non-loaded part)
			off = uint64(rapid.SampledFrom([]int{0x40, 0x1000, 0x1040}).Draw(t, "off0"))
			vaddr = first + off%page
		}
		s.Off, s.Vaddr = off, vaddr
		switch rapid.IntRange(0, 2).Draw(t, "paddr") {
		case 0:
			s.Paddr = s.Vaddr
		case 1:
			s.Paddr = 0
		default:
			s.Paddr = s.Vaddr + 0x123
		}
		c.Segs = append(c.Segs, s)
		off += s.Filesz
		vaddr += s.Memsz
	}
	var xs []int
	for i, s := range c.Segs {
		if s.Flags&1 != 0 {
			xs = append(xs, i)
		}
	}
	c.Target = xs[rapid.IntRange(0, len(xs)-1).Draw(t, "target")]
	if rapid.IntRange(0, 3).Draw(t, "datatarget") == 0 {
		// the mapping of a segment that is not executable at link time (made executable at run time, or sampled
		// by a data profiler): same translation rule, and the tail of its last file page may be bss
		var ds []int
		for i, s := range c.Segs {
			if s.Flags&1 == 0 && s.Filesz > 0 {
				ds = append(ds, i)
			}
		}
		if len(ds) > 0 {
			c.Target = ds[rapid.IntRange(0, len(ds)-1).Draw(t, "datatargetidx")]
		}
	}
	if c.Dyn {
		c.Bias = uint64(rapid.SampledFrom([]int{0, 0x1000, 0x555555554000, 0x7f0000000000, 0x10000000}).Draw(t, "bias"))
		if huge {
			c.Bias &^= 0x1fffff
		}
		if first >= 0x400000 && rapid.IntRange(0, 5).Draw(t, "negbias") == 0 {
			// loaded BELOW its link-time address: the bias is a 64-bit two's complement number
			c.Bias = ^uint64(0x200000) + 1
		}
	}
	tg := c.Segs[c.Target]
	pages := int((pageup(tg.Vaddr+tg.Filesz) - pagedown(tg.Vaddr)) / page)
	c.SplitLo = rapid.IntRange(0, pages-1).Draw(t, "splitlo")
	c.SplitHi = rapid.IntRange(c.SplitLo+1, pages).Draw(t, "splithi")
	if rapid.IntRange(0, 2).Draw(t, "nosplit") != 0 {
		c.SplitLo, c.SplitHi = 0, pages
	}
	c.Whole = rapid.IntRange(0, 5).Draw(t, "whole") == 0
	for _, s := range c.Segs {
		// one mapping for the whole image exists only if every segment has the same vaddr-offset delta
		if s.Vaddr-s.Off != c.Segs[0].Vaddr-c.Segs[0].Off {
			c.Whole = false
		}
	}
	c.AddrSel = rapid.SliceOfN(rapid.Uint64(), 1, 6).Draw(t, "addrs")
	c.OneOpen = rapid.Bool().Draw(t, "oneopen")
	c.SLFirst = rapid.Bool().Draw(t, "slfirst")
	return c
}

func (c *elfCase) bytes() []byte {
	b := make([]byte, 64)
	copy(b, []byte{0x7f, 'E', 'L', 'F', 2, 1, 1, 0})
	typ := uint16(2) // ET_EXEC
	if c.Dyn {
		typ = 3
	}
	le := binary.LittleEndian
	le.PutUint16(b[16:], typ)
	le.PutUint16(b[18:], 62) // x86-64
	le.PutUint32(b[20:], 1)
	le.PutUint64(b[24:], c.Segs[c.Target].Vaddr) // entry
	le.PutUint64(b[32:], 64)                     // phoff
	le.PutUint64(b[40:], 0)                      // shoff
	le.PutUint16(b[52:], 64)                     // ehsize
	le.PutUint16(b[54:], 56)                     // phentsize
	le.PutUint16(b[56:], uint16(len(c.Segs)))
	le.PutUint16(b[58:], 64) // shentsize
	for _, s := range c.Segs {
		ph := make([]byte, 56)
		le.PutUint32(ph[0:], 1) // PT_LOAD
		le.PutUint32(ph[4:], s.Flags)
		le.PutUint64(ph[8:], s.Off)
		le.PutUint64(ph[16:], s.Vaddr)
		le.PutUint64(ph[24:], s.Paddr)
		le.PutUint64(ph[32:], s.Filesz)
		le.PutUint64(ph[40:], s.Memsz)
		le.PutUint64(ph[48:], s.Align)
		b = append(b, ph...)
	}
	return b
}

// mapping returns the runtime mapping (start, limit, offset) under the loader model.
func (c *elfCase) mapping() (start, limit, offset uint64) {
	if c.Whole {
		f, l := c.Segs[0], c.Segs[len(c.Segs)-1]
		return c.Bias + pagedown(f.Vaddr), c.Bias + pageup(l.Vaddr+l.Filesz), pagedown(f.Off)
	}
	tg := c.Segs[c.Target]
	s0 := c.Bias + pagedown(tg.Vaddr)
	return s0 + uint64(c.SplitLo)*page, s0 + uint64(c.SplitHi)*page, pagedown(tg.Off) + uint64(c.SplitLo)*page
}

func scratchDir() string {
	d := os.Getenv("VERIF_SCRATCH")
	if d == "" {
		d = os.TempDir()
	}
	d = filepath.Join(d, "c13")
	os.MkdirAll(d, 0o755)
	return d
}

func checkELF(c *elfCase, o *vk.Obs) []string {
	var e vk.Errs
	path := filepath.Join(scratchDir(), "case.elf")
	if err := os.WriteFile(path, c.bytes(), 0o644); err != nil {
		return nil
	}
	start, limit, offset := c.mapping()
	tg := c.Segs[c.Target]
	// addresses that really belong to the target segment and lie inside the mapping
	lo, hi := c.Bias+tg.Vaddr, c.Bias+tg.Vaddr+tg.Filesz
	if tg.Flags&1 == 0 && tg.Memsz > tg.Filesz {
		// the rest of the last file-backed page holds the start of the bss
		hi = c.Bias + min(pageup(tg.Vaddr+tg.Filesz), tg.Vaddr+tg.Memsz)
	}
	o.LabelIf(tg.Flags&1 == 0, "non-executable-segment")
	if lo < start {
		lo = start
	}
	if hi > limit {
		hi = limit
	}
	if lo >= hi {
		o.Label("mapping-misses-segment-data")
		return nil
	}
	addrs := []uint64{lo, hi - 1}
	for _, sel := range c.AddrSel {
		a := lo + sel%(hi-lo)
		addrs = append(addrs, a, pagedown(a), pagedown(a)+page-1)
	}
	// unambiguous class: no other segment's file range intersects the mapping's file range, no bss anywhere before
	unamb := !c.Whole
	for i, s := range c.Segs {
		if i == c.Target {
			continue
		}
		if s.Off < offset+(limit-start) && offset < s.Off+s.Memsz {
			unamb = false
		}
	}
	if tg.Memsz != tg.Filesz {
		unamb = false
	}
	deltas := map[uint64]bool{}
	for _, s := range c.Segs {
		deltas[s.Vaddr-s.Off] = true
	}
	o.LabelIf(unamb, "unambiguous")
	o.LabelIf(len(deltas) > 1, "different-deltas")
	o.LabelIf(c.Bias != 0, "biased")
	o.LabelIf(c.Whole, "whole-image-mapping")
	o.LabelIf(c.SplitLo != 0, "split-mapping")
	o.NonTrivial = len(c.Segs) >= 2 && len(deltas) > 1 && c.Bias != 0
	bu := &binutils.Binutils{}
	bu.SetTools("nm:/nonexistent,addr2line:/nonexistent,llvm-symbolizer:/nonexistent,objdump:/nonexistent")
	var of interface {
		ObjAddr(uint64) (uint64, error)
		Close() error
	}
	slDone := false
	for _, a := range addrs {
		if a < lo || a >= hi {
			continue
		}
		if of == nil || !c.OneOpen {
			slDone = false
			f, err := bu.Open(path, start, limit, offset, "")
			if err != nil {
				if unamb {
					e.Addf("Open rejects an unambiguous mapping [%#x,%#x) offset %#x of segment %d (%+v, bias %#x): %v", start, limit, offset, c.Target, c.Segs, c.Bias, err)
				} else {
					o.Label("open-error")
				}
				return e
			}
			of = f
		}
		// the owning segment is also identified uniquely when the address's file offset lies in exactly one
		// segment's file range (segments sharing a page, one-page mappings), unless a single ObjFile is reused
		// (its base is fixed by the first address)
		unambAddr := unamb
		if !unamb && !c.Whole && !c.OneOpen {
			fo := a - start + offset
			n := 0
			for _, s := range c.Segs {
				if fo >= s.Off && fo < s.Off+s.Memsz && s.Filesz > 0 {
					n++
				}
			}
			unambAddr = n == 1 && tg.Memsz == tg.Filesz
		}
		if sl, ok := of.(interface {
			SourceLine(uint64) ([]plugin.Frame, error)
		}); ok && c.SLFirst && c.OneOpen && !slDone {
			slDone = true // once per object file is what matters (and nm is run for every lookup)
			// symbolization and translation share the once-only base computation of the object file; whatever
			// the lookup answers (no nm here: an error), the translation below must still be right or an error
			sl.SourceLine(a)
		}
		got, err := of.ObjAddr(a)
		if !c.OneOpen {
			of.Close()
		}
		if err != nil {
			if unambAddr {
				e.Addf("ObjAddr(%#x) fails although the mapping [%#x,%#x) offset %#x identifies segment %d uniquely (segments %+v, bias %#x): %v", a, start, limit, offset, c.Target, c.Segs, c.Bias, err)
			} else {
				o.Label("error-instead-of-address")
			}
			continue
		}
		if got != a-c.Bias {
			// recorded finding: the kernel-image heuristic (segment vaddr == mapping start - offset) also
			// matches a user-space PIE whose load bias happens to equal the segment's page-aligned file offset
			if c.Dyn && kernelHeuristicHit(c, a, start, offset) && vk.Known("C13-kernel-heuristic-collision") {
				o.Exclude("C13-kernel-heuristic-collision")
				continue
			}
			e.Addf("ObjAddr(%#x) = %#x, the link-time address is %#x (runtime address minus load bias %#x); mapping [%#x,%#x) offset %#x, segment %d of %+v, dyn=%v", a, got, a-c.Bias, c.Bias, start, limit, offset, c.Target, c.Segs, c.Dyn)
		}
	}
	return e
}

// chosenVaddr returns the vaddr of the segment whose file range contains the address's file offset
// (the one pprof would pick), or of the target segment.
// kernelHeuristicHit: some segment whose file pages hold the address's file offset has p_vaddr equal to
// mapping start minus mapping offset - the condition under which GetBase takes the file for a kernel image.
func kernelHeuristicHit(c *elfCase, a, start, offset uint64) bool {
	fo := a - start + offset
	for _, s := range c.Segs {
		lo, hi := s.Off&^0xfff, (s.Off+s.Filesz+0xfff)&^0xfff
		if s.Filesz > 0 && fo >= lo && fo < hi && s.Vaddr == start-offset {
			return true
		}
	}
	return c.Segs[c.Target].Vaddr == start-offset
}

func TestPropObjAddr(t *testing.T) {
	vk.Main(t, vk.Spec[elfCase]{ID: "C13", Facet: "objaddr", Quick: 1500, Thorough: 12000, Gen: genELF, Check: checkELF,
		Rule: "synthetic ELF64 files (ET_EXEC / ET_DYN, 1..4 PT_LOAD segments, first vaddr 0/0x400000/other, page-aligned or packed (lld-style, segments sharing a file page) layouts, gaps, bss, 4 KiB or 2 MiB alignment, p_paddr equal/zero/unrelated) x load bias x loader-model mapping of an executable segment (whole, page-aligned split, or one merged mapping of the whole image) x addresses (first/last byte, page borders, random); oracle: ObjAddr is an error or exactly runtime address minus bias, and must succeed when the mapping identifies the segment unambiguously (no other segment's file range intersects it, no bss); non-trivial = >=2 segments with different vaddr-offset deltas and a non-zero bias"})
}

// ---- facet nm: symbol table lookup ----

type Sym struct {
	Name string
	Type string
	Addr uint64
	Size uint64
}

type nmCase struct {
	Syms  []Sym
	Bias  uint64
	Addrs []uint64 // offsets relative to the first symbol - 0x10
}

func genNM(t *rapid.T) *nmCase {
	c := &nmCase{Bias: uint64(rapid.SampledFrom([]int{0, 0x10000000, 0x555555554000}).Draw(t, "bias"))}
	n := rapid.IntRange(1, 8).Draw(t, "nsyms")
	addr := uint64(0x1000)
	for i := 0; i < n; i++ {
		s := Sym{Name: fmt.Sprintf("sym%d", i), Type: rapid.SampledFrom([]string{"T", "t", "T", "D", "b", "R", "W", "V"}).Draw(t, "type"), Addr: addr,
			Size: uint64(rapid.SampledFrom([]int{0, 1, 8, 0x10, 0x40}).Draw(t, "size"))}
		c.Syms = append(c.Syms, s)
		switch rapid.IntRange(0, 3).Draw(t, "next") {
		case 0: // alias: same address
		case 1:
			addr += s.Size
		default:
			addr += s.Size + uint64(rapid.SampledFrom([]int{1, 8, 0x100}).Draw(t, "gap"))
		}
	}
	c.Addrs = rapid.SliceOfN(rapid.Uint64Range(0, addr-0x1000+0x80), 1, 8).Draw(t, "addrs")
	return c
}

func checkNM(c *nmCase, o *vk.Obs) []string {
	var e vk.Errs
	dir := scratchDir()
	// a one-segment PIE covering the symbols
	last := c.Syms[len(c.Syms)-1]
	size := pageup(last.Addr + last.Size + 0x100)
	ec := &elfCase{Dyn: true, Segs: []Seg{{Off: 0, Vaddr: 0, Paddr: 0, Filesz: size, Memsz: size, Flags: 5, Align: page}}, Bias: c.Bias}
	path := filepath.Join(dir, "nm.elf")
	os.WriteFile(path, ec.bytes(), 0o644)
	var tb strings.Builder
	tb.WriteString("garbage line\n")
	for _, s := range c.Syms {
		fmt.Fprintf(&tb, "%s %s %x %x\n", s.Name, s.Type, s.Addr, s.Size)
	}
	tb.WriteString("undefined_sym U\n")
	os.WriteFile(path+".nm", []byte(tb.String()), 0o644)
	tooldir := filepath.Join(dir, "tools")
	os.MkdirAll(tooldir, 0o755)
	nm := filepath.Join(tooldir, "nm")
	if _, err := os.Stat(nm); err != nil {
		os.WriteFile(nm, []byte("#!/bin/sh\nfor a in \"$@\"; do f=\"$a\"; done\ncat \"$f.nm\"\n"), 0o755)
	}
	bu := &binutils.Binutils{}
	bu.SetTools("nm:" + tooldir + ",addr2line:/nonexistent,llvm-symbolizer:/nonexistent,objdump:/nonexistent")
	bu.SetFastSymbolization(true)
	of, err := bu.Open(path, c.Bias, c.Bias+size, 0, "")
	if err != nil {
		e.Addf("Open: %v", err)
		return e
	}
	defer of.Close()
	aliases := false
	for i := 1; i < len(c.Syms); i++ {
		if c.Syms[i].Addr == c.Syms[i-1].Addr {
			aliases = true
		}
	}
	o.LabelIf(aliases, "aliases")
	o.NonTrivial = len(c.Syms) >= 2
	sorted := append([]Sym{}, c.Syms...)
	sort.SliceStable(sorted, func(i, j int) bool { return sorted[i].Addr < sorted[j].Addr })
	for _, rel := range c.Addrs {
		la := 0x1000 - 0x10 + rel // link-time address
		if la >= size {
			continue
		}
		frames, err := of.SourceLine(c.Bias + la)
		if err != nil {
			e.Addf("SourceLine(%#x): %v", c.Bias+la, err)
			continue
		}
		// expected: the symbols with the greatest start <= la
		best := -1
		for i, s := range sorted {
			if s.Addr <= la {
				best = i
			}
		}
		got := ""
		if len(frames) > 0 {
			got = frames[0].Func
		}
		if best < 0 {
			if got != "" {
				e.Addf("address %#x lies below every symbol but %q was returned", la, got)
			}
			continue
		}
		lastSym := sorted[len(sorted)-1]
		if la >= lastSym.Addr+lastSym.Size {
			continue // beyond the last symbol: not asserted
		}
		var want []string
		data := false
		for _, s := range sorted {
			if s.Addr == sorted[best].Addr {
				want = append(want, s.Name)
				if strings.ContainsAny(s.Type, "bBdDrRvVW") {
					data = true
				}
			}
		}
		ok := false
		for _, w := range want {
			if w == got {
				ok = true
			}
		}
		if got == "" {
			// acceptable only for data symbols whose size does not reach the address
			covers := false
			for _, s := range sorted {
				if s.Addr == sorted[best].Addr && (!strings.ContainsAny(s.Type, "bBdDrRvVW") || la < s.Addr+s.Size) {
					covers = true
				}
			}
			if covers && !data {
				e.Addf("address %#x: no symbol returned, expected one of %v (symbols %+v)", la, want, c.Syms)
			}
			continue
		}
		if !ok {
			e.Addf("address %#x (runtime %#x): got %q, the symbol with the greatest start not above it is one of %v (symbols %+v)", la, c.Bias+la, got, want, c.Syms)
			continue
		}
		// a data symbol only within its size
		for _, s := range sorted {
			if s.Name == got && strings.ContainsAny(s.Type, "bBdDrRvVW") && la >= s.Addr+s.Size {
				e.Addf("address %#x: data symbol %q [%#x,+%#x) returned beyond its size", la, got, s.Addr, s.Size)
			}
		}
	}
	return e
}

func TestPropNM(t *testing.T) {
	vk.Main(t, vk.Spec[nmCase]{ID: "C13", Facet: "nm", Quick: 250, Thorough: 2500, Gen: genNM, Check: checkNM,
		Rule: "sorted symbol tables (gaps, zero sizes, aliases at one address, text/data/weak types, unparsable lines) served by a fake nm selected with SetTools, looked up through Binutils.Open(...).SourceLine in fast mode on a PIE loaded at a drawn bias; oracle: the symbol with the greatest start not above the translated address (any alias), data symbols only within their size, nothing below the first symbol; addresses beyond the last symbol are not asserted; non-trivial = >=2 symbols"})
}

// ---- facet legacymap: the same translation when the mappings come from the memory map of a legacy profile ----

type legacyCase struct {
	E     *elfCase
	Stray bool // one extra frame just below the executable mapping (an unwinder artefact)
}

func genLegacy(t *rapid.T) *legacyCase {
	e := genELF(t)
	e.Whole, e.SplitLo = false, 0
	if e.Segs[e.Target].Flags&1 == 0 {
		// a legacy memory map only lists executable mappings: samples are taken in code
		for i, s := range e.Segs {
			if s.Flags&1 != 0 {
				e.Target = i
				break
			}
		}
	}
	return &legacyCase{E: e, Stray: rapid.IntRange(0, 2).Draw(t, "stray") == 0}
}

func checkLegacy(c *legacyCase, o *vk.Obs) []string {
	var e vk.Errs
	ec := c.E
	path := filepath.Join(scratchDir(), "legacy.elf")
	if err := os.WriteFile(path, ec.bytes(), 0o644); err != nil {
		return nil
	}
	// loader model: one mapping per segment, whole pages, as /proc/self/maps lists them
	type mp struct {
		start, limit, off uint64
		perm              string
		seg               int
	}
	var maps []mp
	for i, s := range ec.Segs {
		if s.Filesz == 0 {
			continue
		}
		perm := "r--p"
		if s.Flags&1 != 0 {
			perm = "r-xp"
		} else if s.Flags&2 != 0 {
			perm = "rw-p"
		}
		m := mp{ec.Bias + pagedown(s.Vaddr), ec.Bias + pageup(s.Vaddr+s.Filesz), pagedown(s.Off), perm, i}
		if len(maps) > 0 && maps[len(maps)-1].limit > m.start {
			// two segments on one page of memory: not a layout a loader produces
			return nil
		}
		maps = append(maps, m)
	}
	// The legacy parser keeps executable mappings only and merges two of them when they are adjacent in
	// memory and their offsets are contiguous - where offset 0 counts as "offset not available" (brief maps
	// carry none). Two adjacent executable mappings one of which is at file offset 0 are therefore merged on
	// purpose, whatever the file layout: not generated.
	var prev *mp
	for i := range maps {
		if maps[i].perm != "r-xp" {
			continue
		}
		if prev != nil && prev.limit == maps[i].start && (prev.off == 0 || maps[i].off == 0) {
			o.Label("adjacent-mappings-offset-unknown")
			return nil
		}
		prev = &maps[i]
	}
	tg := ec.Segs[ec.Target]
	lo, hi := ec.Bias+tg.Vaddr, ec.Bias+tg.Vaddr+tg.Filesz
	if hi-lo < 2 {
		return nil
	}
	// A frame just below a mapping with a non-zero offset makes the legacy parser extend the mapping down to
	// file offset 0 (its documented work-around for maps that lost the first part of a split mapping). That
	// describes the process correctly only when the whole file is mapped with one address-minus-offset
	// delta; for other layouts the statement (mappings a loader may produce) does not cover the result.
	stray, uniform := c.Stray, true
	for _, s := range ec.Segs {
		if s.Vaddr-s.Off != tg.Vaddr-tg.Off {
			stray, uniform = false, false
		}
	}
	// Likewise the parser rewrites a main mapping whose start minus offset is 0x400000 to start there at
	// offset 0 (the conventional link address): right only when the file is mapped with one delta.
	for _, m := range maps {
		if !uniform && m.perm == "r-xp" && m.start-m.off == 0x400000 {
			o.Label("conventional-start-rewrite")
			return nil
		}
	}
	// sampled addresses of the target segment (the profile records return addresses: one past)
	var want []uint64
	for _, sel := range ec.AddrSel {
		want = append(want, lo+sel%(hi-lo))
	}
	want = append(want, lo, hi-1)
	var b strings.Builder
	b.WriteString("heap profile: 1: 2 [1: 2] @ heapprofile\n")
	for _, a := range want {
		fmt.Fprintf(&b, "1: 2 [1: 2] @ 0x%x", a+1)
		if stray {
			// a frame one byte below the executable mapping
			fmt.Fprintf(&b, " 0x%x", ec.Bias+pagedown(tg.Vaddr))
		}
		b.WriteString("\n")
	}
	b.WriteString("\nMAPPED_LIBRARIES:\n")
	for _, m := range maps {
		fmt.Fprintf(&b, "%08x-%08x %s %08x 08:01 1234 %s\n", m.start, m.limit, m.perm, m.off, path)
	}
	p, err := profile.ParseData([]byte(b.String()))
	if err != nil {
		e.Addf("legacy profile with the memory map of the binary rejected: %v\n%s", err, b.String())
		return e
	}
	o.LabelIf(stray, "stray-frame-below-mapping")
	o.LabelIf(ec.Bias != 0, "biased")
	o.NonTrivial = len(maps) >= 2 && ec.Bias != 0
	bu := &binutils.Binutils{}
	bu.SetTools("nm:/nonexistent,addr2line:/nonexistent,llvm-symbolizer:/nonexistent,objdump:/nonexistent")
	inTarget := map[uint64]bool{}
	for _, a := range want {
		inTarget[a] = true
	}
	for _, l := range p.Location {
		if !inTarget[l.Address] || l.Mapping == nil || l.Mapping.File != path {
			continue
		}
		m := l.Mapping
		of, err := bu.Open(m.File, m.Start, m.Limit, m.Offset, "")
		if err != nil {
			o.Label("open-error")
			continue
		}
		got, err := of.ObjAddr(l.Address)
		of.Close()
		if err != nil {
			o.Label("error-instead-of-address")
			continue
		}
		if got != l.Address-ec.Bias {
			if ec.Dyn && kernelHeuristicHit(ec, l.Address, m.Start, m.Offset) && vk.Known("C13-kernel-heuristic-collision") {
				o.Exclude("C13-kernel-heuristic-collision")
				continue
			}
			if mergedBssHit(ec, l.Address, m.Start, m.Limit, m.Offset) && vk.Known("C13-merged-mapping-bss") {
				o.Exclude("C13-merged-mapping-bss")
				continue
			}
			e.Addf("address %#x of a legacy profile: mapping [%#x,%#x) offset %#x (memory map lists %+v), ObjAddr = %#x, the link-time address is %#x (load bias %#x, segments %+v)", l.Address, m.Start, m.Limit, m.Offset, maps, got, l.Address-ec.Bias, ec.Bias, ec.Segs)
		}
	}
	return e
}

func TestPropLegacyMap(t *testing.T) {
	vk.Main(t, vk.Spec[legacyCase]{ID: "C13", Facet: "legacymap", Quick: 1500, Thorough: 10000, Gen: genLegacy, Check: checkLegacy,
		Rule: "the objaddr generator's ELF files, loaded by a loader model (one whole-page mapping per segment, so segments sharing a file page give adjacent mappings with overlapping offsets), described by the memory map of a legacy heap profile whose samples lie in an executable segment (optionally with a stray frame just below the mapping); the mappings pprof derives from that map are given to binutils; oracle: ObjAddr is an error or exactly the runtime address minus the load bias; non-trivial = at least two mappings and a non-zero bias"})
}

// mergedBssHit: signature of the recorded finding C13-merged-mapping-bss. The mapping covers the file pages
// of more than one executable segment (adjacent mappings with contiguous offsets are one mapping, for the
// kernel as for pprof) and the address's file offset also lies inside the memory image [off, off+memsz) of
// another segment that has uninitialised data: binutils discards the owning segment (its aligned offset is
// above the mapping offset) and takes the other one without noticing the ambiguity.
func mergedBssHit(c *elfCase, a, start, limit, offset uint64) bool {
	fo := a - start + offset
	spanned := 0
	for _, s := range c.Segs {
		if s.Flags&1 != 0 && s.Filesz > 0 && pagedown(s.Off) >= offset && pagedown(s.Off) < offset+(limit-start) {
			spanned++
		}
	}
	if spanned < 2 {
		return false
	}
	for _, s := range c.Segs {
		if s.Memsz > s.Filesz && s.Filesz > 0 && fo >= s.Off && fo < s.Off+s.Memsz && !(c.Bias+s.Vaddr <= a && a < c.Bias+s.Vaddr+s.Filesz) {
			return true
		}
	}
	return false
}
