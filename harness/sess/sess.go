// Package sess runs one scripted interactive pprof session and collects everything observable about it.
// It is shared by the C10 check (in-process sessions) and cmd/xsession (the same session in a pristine
// process, which is the only reference that process-global state cannot contaminate).
package sess

import (
	"fmt"
	"os"
	"path/filepath"
	"regexp"
	"strings"

	"github.com/google/pprof/profile"
	"github.com/google/pprof/xverif/pp"
)

// ResetBlock pins every option at the start of every session (the configuration is process-global).
var ResetBlock = []string{"call_tree=false", "relative_percentages=false", "unit=minimum", "compact_labels=true", "source_path=", "trim_path=", "intel_syntax=false", "mean=false",
	"divide_by=1", "normalize=false", "sort=flat", "tagroot=", "tagleaf=", "drop_negative=false", "nodecount=-1", "nodefraction=0.005", "edgefraction=0.001", "trim=true",
	"focus=", "ignore=", "prune_from=", "hide=", "show=", "show_from=", "tagfocus=", "tagignore=", "tagshow=", "taghide=", "noinlines=false", "showcolumns=false", "granularity=functions", "output="}

// Out is what a session produced.
type Out struct {
	Files  map[string]string // redirected output by file name
	Stdout string
	Ann    string // "Generating report in ..." announcements, temporary file numbers masked
	Err    string
	Panic  string
	Res    *pp.Res `json:"-"`
}

var tmpNum = regexp.MustCompile(`profile\d+\.`)

// Announcements lists the "Generating report in ..." messages of a session, without the one of a leading
// "comments >flush" and with temporary file numbers masked.
func Announcements(res *pp.Res) string {
	_, errs := res.UI.Snapshot()
	var out []string
	for _, m := range errs {
		if strings.HasPrefix(m, "Generating report in") && !strings.HasSuffix(strings.TrimSpace(m), " flush") {
			out = append(out, tmpNum.ReplaceAllString(strings.TrimSpace(m), "profileN."))
		}
	}
	return strings.Join(out, "\n")
}

var redirRe = regexp.MustCompile(`>\s*([A-Za-z0-9_]+)\s*$`)

// Run executes the reset block followed by lines in one interactive session on p.
func Run(p *profile.Profile, lines []string) Out { return RunOpts(p, lines, false) }

// RunOpts is Run; with realFiles pprof writes the redirected output itself, as files in the working
// directory (its default writer), instead of handing it to the harness's in-memory writer.
func RunOpts(p *profile.Profile, lines []string, realFiles bool) Out {
	all := append(append([]string{}, ResetBlock...), lines...)
	wr := &pp.Writer{Fail: map[string]error{}}
	for i := 0; i < 40; i++ {
		wr.Fail[fmt.Sprintf("fail%d", i)] = fmt.Errorf("scripted: cannot create file")
	}
	var names []string
	if realFiles {
		seen := map[string]bool{}
		for _, l := range lines {
			if m := redirRe.FindStringSubmatch(l); m != nil && !seen[m[1]] {
				seen[m[1]] = true
				names = append(names, m[1])
				os.Remove(m[1])
			}
		}
	}
	res := pp.Run(pp.Req{Args: []string{"src"}, Sources: map[string]*pp.Source{"src": {Prof: p}}, Lines: all, Writer: wr, OSWriter: realFiles})
	// un-redirected binary reports are saved as numbered temporary files (profile001... in the working directory, at most 9999 of them)
	wd, _ := os.Getwd()
	for _, d := range []string{os.Getenv("PPROF_TMPDIR"), wd} {
		if d == "" {
			continue
		}
		if ents, err := os.ReadDir(d); err == nil {
			for _, en := range ents {
				if strings.HasPrefix(en.Name(), "profile") {
					os.Remove(filepath.Join(d, en.Name()))
				}
			}
		}
	}
	out := Out{Files: map[string]string{}, Stdout: res.Stdout, Ann: Announcements(res), Panic: res.Panic, Res: res}
	if res.Err != nil {
		out.Err = res.Err.Error()
	}
	for _, n := range res.W.Order {
		b, _ := res.W.Get(n)
		out.Files[n] = string(b)
	}
	for _, n := range names {
		if b, err := os.ReadFile(n); err == nil {
			out.Files[n] = string(b)
		}
		os.Remove(n)
	}
	return out
}
