package c18

import (
	"fmt"
	"net/url"
	"regexp"
	"sort"
	"strings"
	"testing"

	"github.com/google/pprof/profile"
	"github.com/google/pprof/xverif/gen"
	"github.com/google/pprof/xverif/model"
	"github.com/google/pprof/xverif/pp"
	"github.com/google/pprof/xverif/rep"
	"github.com/google/pprof/xverif/vk"
	"pgregory.net/rapid"
)

type graphCase struct {
	P         *gen.Prof
	C         rep.Conf
	Format    string // dot, callgrind, web-top, web-flamegraph
	Trim      bool
	Diff      bool // add negated mirrored samples (entries whose flat and cum cancel)
	TagCancel bool // a labelled sample and its negation with a different "bytes" value: the label totals zero, its numeric tags do not
}

var metaOpts = gen.Opts{Alpha: gen.Meta, MaxSamples: 6, MaxDepth: 4, MaxLines: 3, MinTypes: 1, MaxTypes: 2, SmallVals: true, AnyIDs: true, NoHugeIDs: true,
	Labels: true, NumLabels: true, EmptyStacks: true, NoMapping: true, Unsym: true, LosslessU: true, Columns: true, Header: true}

const probe = "<x7q>\"'&"

func genCase(t *rapid.T) *graphCase {
	p := rep.GenProfile(t, metaOpts)
	// make sure the HTML probe is somewhere
	if len(p.Functions) > 0 && rapid.Bool().Draw(t, "probefn") {
		p.Functions[0].Name += probe
	}
	if len(p.Functions) > 0 && rapid.Bool().Draw(t, "probefile") {
		p.Functions[len(p.Functions)-1].Filename += probe + "</script><script>x7q()"
	}
	if len(p.Mappings) > 0 && rapid.Bool().Draw(t, "probemap") {
		p.Mappings[0].File += probe
	}
	if rapid.IntRange(0, 3).Draw(t, "metatype") == 0 {
		p.SampleTypes[len(p.SampleTypes)-1].Type += rapid.SampledFrom([]string{`"q`, `\`, "<b>", "a b", "(x)"}).Draw(t, "typesuffix")
	}
	p.Time, p.Duration = 0, 0
	c := &graphCase{P: p, Format: rapid.SampledFrom([]string{"dot", "dot", "callgrind", "callgrind", "web-top", "web-flamegraph"}).Draw(t, "format"),
		Trim: rapid.Bool().Draw(t, "trim"), Diff: rapid.IntRange(0, 2).Draw(t, "diff") == 0, TagCancel: rapid.IntRange(0, 3).Draw(t, "tagcancel") == 0}
	c.C = rep.GenConf(t, p, []string{"dot"})
	c.C.Mean = false
	return c
}

func buildProfile(c *graphCase) *profile.Profile {
	gp := *c.P
	if c.Diff {
		gp.Samples = append([]gen.Sample{}, c.P.Samples...)
		for _, s := range c.P.Samples {
			m := s
			m.Values = make([]int64, len(s.Values))
			for j, v := range s.Values {
				m.Values[j] = -v
			}
			m.Labels = nil
			gp.Samples = append(gp.Samples, m)
			break
		}
	}
	if c.TagCancel {
		if !c.Diff {
			gp.Samples = append([]gen.Sample{}, c.P.Samples...)
		}
		for i, s := range c.P.Samples {
			if len(s.Labels) == 0 || len(s.Locs) == 0 {
				continue
			}
			a, b := s, s
			a.Nums = []gen.NumLabel{{Key: "bytes", Vals: []int64{16}}}
			b.Nums = []gen.NumLabel{{Key: "bytes", Vals: []int64{4096}}}
			b.Values = make([]int64, len(s.Values))
			for j, v := range s.Values {
				b.Values[j] = -v
			}
			gp.Samples[i] = a
			gp.Samples = append(gp.Samples, b)
			// keep the node in the graph
			k := s
			k.Labels, k.Nums = nil, nil
			gp.Samples = append(gp.Samples, k)
			break
		}
	}
	p := gp.Build().Copy()
	// pprof blanks the file name of a mapping without build id when the name parses as an absolute URL
	// (that is how it undoes the "source URL as mapping file" convention); generated names such as
	// "ns::f" look like one. Give those mappings a build id so that the convention is not in play.
	for _, m := range p.Mapping {
		if u, err := url.Parse(m.File); m.BuildID == "" && err == nil && u.IsAbs() {
			m.BuildID = "b1d"
		}
	}
	return p
}

var cgSuffix = regexp.MustCompile(` \[\d+/\d+\]$`)

func check(c *graphCase, o *vk.Obs) []string {
	var e vk.Errs
	p := buildProfile(c)
	idx, ok := rep.ResolveIndex(p, c.C.SampleIndex)
	if !ok {
		return nil
	}
	o.Label("fmt:" + c.Format)
	o.LabelIf(c.C.CallTree, "call_tree")
	o.LabelIf(len(c.C.TagRoot)+len(c.C.TagLeaf) > 0, "tagroot/leaf")
	meta := false
	all := ""
	for _, f := range p.Function {
		all += f.Name + f.Filename
	}
	for _, m := range p.Mapping {
		all += m.File
	}
	for _, s := range p.Sample {
		for k, v := range s.Label {
			all += k + strings.Join(v, "")
		}
	}
	if strings.ContainsAny(all, "\"\\\n<>&'{}[];") {
		meta = true
	}
	o.LabelIf(strings.Contains(all, `"`), "quote")
	o.LabelIf(strings.Contains(all, `\`), "backslash")
	o.LabelIf(strings.Contains(all, "\n"), "newline")
	o.LabelIf(strings.ContainsAny(all, "<>&"), "angle/amp")
	o.NonTrivial = meta
	fl := c.C.Flags()
	fl["trim"] = fmt.Sprint(c.Trim)
	delete(fl, "dot")
	switch c.Format {
	case "dot":
		fl["dot"] = "true"
		res := pp.Run(pp.Req{Flags: fl, Args: []string{"src"}, Sources: map[string]*pp.Source{"src": {Prof: p}}})
		if res.Panic != "" {
			return []string{"pprof panicked: " + res.Panic}
		}
		if res.Err != nil {
			o.Label("error")
			return nil
		}
		out := res.Out("out")
		g, err := model.ParseDot(out)
		if err != nil {
			e.Addf("-dot output is not a valid Graphviz document: %v", err)
			return e
		}
		for _, ed := range g.Edges {
			for _, end := range []string{ed.From, ed.To} {
				if g.Nodes[end] == nil {
					e.Addf("-dot edge %s -> %s refers to the undeclared node %s", ed.From, ed.To, end)
				}
			}
		}
		// every declared report node must carry a label, and the names must be the profile's
		want := map[string]bool{}
		m := model.BuildReport(p, c.C.Model(idx, false))
		for _, en := range m.Entries {
			want[en.Name] = true
		}
		for _, id := range g.NodeSeq {
			if !strings.HasPrefix(id, "N") || strings.Contains(id, "_") {
				continue
			}
			n := g.Nodes[id]
			tip := n.Attrs["tooltip"]
			i := strings.LastIndex(tip, " (")
			if i < 0 {
				e.Addf("-dot node %s has tooltip %q", id, tip)
				continue
			}
			name := unescapeDot(tip[:i])
			if !want[name] {
				e.Addf("-dot node %s is named %q in its tooltip, which is no entry of the report (entries: %q)", id, name, keys(want))
			}
		}
	case "callgrind":
		fl["callgrind"] = "true"
		res := pp.Run(pp.Req{Flags: fl, Args: []string{"src"}, Sources: map[string]*pp.Source{"src": {Prof: p}}})
		if res.Panic != "" {
			return []string{"pprof panicked: " + res.Panic}
		}
		if res.Err != nil {
			o.Label("error")
			return nil
		}
		out := res.Out("out")
		cg, err := model.ParseCallgrind(out)
		if err != nil {
			e.Addf("-callgrind output violates the format: %v", err)
			return e
		}
		mc := c.C.Model(idx, false)
		mc.Gran, mc.ObjNames = "addresses", true
		mc.CallTree = c.C.CallTree
		m := model.BuildReport(p, mc)
		type node struct {
			fn, file string
			addr     uint64
			line     int64
			flat     int64
		}
		var want, got []string
		addrOf := map[string]bool{}
		for _, en := range m.Entries {
			if en.Flat.V == 0 && en.Cum.V == 0 {
				continue
			}
			oneLine := strings.NewReplacer("\n", " ", "\r", " ")
			addrOf[fmt.Sprintf("%q@%x:%d", oneLine.Replace(en.F.Name), en.F.Addr, en.F.Line)] = true
			if en.F.Name == "" && en.F.File == "" && en.F.Addr == 0 && en.F.Line == 0 && en.Flat.Val() == 0 {
				continue // prints as an all-empty zero-cost line, which the reader below skips as well
			}
			want = append(want, fmt.Sprintf("%q %q @%x:%d =%d", oneLine.Replace(en.F.Name), oneLine.Replace(en.F.File), en.F.Addr, en.F.Line, en.Flat.Val()))
			addrOf[fmt.Sprintf("%q@%x:%d", oneLine.Replace(en.F.Name), en.F.Addr, en.F.Line)] = true
		}
		for _, r := range cg.Records {
			if !(r.Fn == "" && r.File == "" && r.Cost == 0 && r.Addr == 0 && r.Line == 0) {
				got = append(got, fmt.Sprintf("%q %q @%x:%d =%d", r.Fn, r.File, r.Addr, r.Line, r.Cost))
			}
			for _, cl := range r.Calls {
				fn := cgSuffix.ReplaceAllString(cl.Fn, "")
				if !addrOf[fmt.Sprintf("%q@%x:%d", fn, cl.Addr, cl.Line)] {
					// the recorded finding explains exactly one wrong reading: the relative form was computed against
					// the function printed before the caller
					if cl.Relative && vk.Known("C18-callgrind-calls-relative") && addrOf[fmt.Sprintf("%q@%x:%d", fn, cl.AltAddr, cl.Line)] {
						o.Exclude("C18-callgrind-calls-relative")
						continue
					}
					e.Addf("-callgrind: call from %q to %q decodes to target position %#x:%d, which is no entry of that function in the report (relative positions are relative to the previous cost line)", r.Fn, fn, cl.Addr, cl.Line)
				}
			}
		}
		sort.Strings(want)
		sort.Strings(got)
		if strings.Join(want, "|") != strings.Join(got, "|") {
			e.Addf("-callgrind functions/positions/costs differ from the report:\n   want %v\n   got  %v", want, got)
		}
		// call costs: one calls= entry per edge of the report, inclusive cost = edge weight
		var wantCalls, gotCalls []string
		oneLine := strings.NewReplacer("\n", " ", "\r", " ")
		for k, a := range m.Edges {
			from, to := m.Entries[k[0]], m.Entries[k[1]]
			if from.Flat.V == 0 && from.Cum.V == 0 || to.Flat.V == 0 && to.Cum.V == 0 {
				continue
			}
			wantCalls = append(wantCalls, fmt.Sprintf("%q@%x:%d -> %q = %d", oneLine.Replace(from.F.Name), from.F.Addr, from.F.Line, oneLine.Replace(to.F.Name), a.Val()))
		}
		for _, r := range cg.Records {
			for _, cl := range r.Calls {
				gotCalls = append(gotCalls, fmt.Sprintf("%q@%x:%d -> %q = %d", r.Fn, r.Addr, r.Line, cgSuffix.ReplaceAllString(cl.Fn, ""), cl.Cost))
			}
		}
		sort.Strings(wantCalls)
		sort.Strings(gotCalls)
		if strings.Join(wantCalls, "|") != strings.Join(gotCalls, "|") {
			e.Addf("-callgrind call costs differ from the edge weights of the report:\n   want %v\n   got  %v", wantCalls, gotCalls)
		}
	default:
		w, err := pp.StartWeb(pp.Req{Flags: map[string]string{}, Args: []string{"src"}, Sources: map[string]*pp.Source{"src": {Prof: p}}})
		if err != nil {
			e.Addf("web interface did not start: %v", err)
			return e
		}
		defer w.Close()
		q := url.Values{}
		q.Set("g", c.C.Gran)
		path := "/top"
		if c.Format == "web-flamegraph" {
			path = "/flamegraph"
		}
		code, body, _, pan := w.Get(path + "?" + q.Encode())
		if pan != "" {
			return []string{path + " handler panicked: " + pan}
		}
		if code != 200 {
			o.Label("http-error")
			return nil
		}
		hasProbe := strings.Contains(all, probe)
		o.LabelIf(hasProbe, "html-probe")
		for _, bad := range []string{"<x7q", "<script>x7q", "x7q>\"'"} {
			if strings.Contains(body, bad) {
				i := strings.Index(body, bad)
				e.Addf("%s page contains profile text %q unescaped: ...%.160q...", path, bad, body[max(0, i-80):min(len(body), i+80)])
				break
			}
		}
		// the number of script elements must not depend on the profile's strings
		benign := *c.P
		_ = benign
		if n := strings.Count(body, "</script>"); n != strings.Count(body, "<script") {
			e.Addf("%s page has %d <script> openings and %d closings", path, strings.Count(body, "<script"), n)
		}
	}
	return e
}

func keys(m map[string]bool) []string {
	var k []string
	for s := range m {
		k = append(k, s)
	}
	sort.Strings(k)
	return k
}

// unescapeDot undoes the escString escapes that matter for comparing names.
func unescapeDot(s string) string {
	var b strings.Builder
	for i := 0; i < len(s); i++ {
		if s[i] == '\\' && i+1 < len(s) {
			switch s[i+1] {
			case '\\':
				b.WriteByte('\\')
				i++
				continue
			case 'l', 'n', 'r':
				b.WriteByte('\n')
				i++
				continue
			}
		}
		b.WriteByte(s[i])
	}
	return b.String()
}

func TestPropGraph(t *testing.T) {
	vk.Main(t, vk.Spec[graphCase]{ID: "C18", Facet: "graph", Quick: 2500, Thorough: 15000, Gen: genCase, Check: check, Journal: true,
		Rule: "profiles whose function names, file names, binary names, label keys/values, comments and sample types are drawn from an alphabet with the metacharacters of DOT, callgrind and HTML (quotes, backslashes, newlines, \\l, angle brackets, &, braces, ->, ::, non-ASCII, leading digits, '(1) x') x call_tree x tags x granularity x tagroot/tagleaf x trim x diff-like cancelling samples; oracle: the DOT output parses with the harness's Graphviz-grammar parser, every edge endpoint is declared, node names are entries of the report; the callgrind output parses with the harness's callgrind parser (every back-reference defined earlier, ids never redefined, relative positions decoded against the previous cost line) and its functions/positions/costs equal the reference report; /top and /flamegraph pages contain no unescaped probe text; non-trivial = at least one metacharacter present"})
}
