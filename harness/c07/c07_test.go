package c07

import (
	"fmt"
	"math"
	"sort"
	"strings"
	"testing"

	"github.com/google/pprof/profile"
	"github.com/google/pprof/xverif/gen"
	"github.com/google/pprof/xverif/model"
	"github.com/google/pprof/xverif/pp"
	"github.com/google/pprof/xverif/vk"
	"pgregory.net/rapid"
)

type combCase struct {
	Srcs      []*gen.Prof
	Bases     []*gen.Prof
	Mode      int // 0 plain, 1 -base, 2 -diff_base
	Normalize bool
	SelfMinus bool   // base = the sources themselves
	Big       bool   // when no unit conversion is involved: one sample per profile carries values beyond 2^53
	SI        string // sample_index for the -top clause
}

type fam struct {
	units   []string
	factors []int64
}

var fams = []fam{
	{[]string{"nanoseconds", "microseconds", "milliseconds", "seconds"}, []int64{1, 1000, 1000000, 1000000000}},
	{[]string{"bytes", "kb", "mb"}, []int64{1, 1024, 1024 * 1024}},
	// decimal prefixes whose float64 ratios are not whole numbers (microgcu -> nanogcu is 999.9999999999999)
	{[]string{"nanogcu", "microgcu", "milligcu", "gcu"}, []int64{1, 1000, 1000000, 1000000000}},
}

var typeNames = []string{"cpu", "wall", "alloc", "delay"}

var opts = gen.Opts{Alpha: gen.Plain, MaxSamples: 6, MaxDepth: 4, MaxLines: 2, AnyIDs: true, NoHugeIDs: true, Labels: true, EmptyStacks: true, NoMapping: true, SmallVals: true} // every frame has a function: entry names must not depend on which binary name a merged mapping keeps

func genCase(t *rapid.T) *combCase {
	u := gen.NewUniverse(t, opts)
	f := rapid.IntRange(0, len(fams)-1).Draw(t, "family")
	nCommon := rapid.IntRange(1, 3).Draw(t, "ncommon")
	common := append([]string{}, typeNames[:nCommon]...)
	mk := func(label string, i int) *gen.Prof {
		names := append([]string{}, common...)
		if rapid.IntRange(0, 3).Draw(t, label+"extra") == 0 {
			names = append(names, fmt.Sprintf("only%s%d", label, i)) // a type the others do not have
		}
		if rapid.Bool().Draw(t, label+"permute") {
			names = rapid.Permutation(names).Draw(t, label+"order")
		}
		var types []gen.VT
		for _, n := range names {
			ui := rapid.IntRange(0, len(fams[f].units)-1).Draw(t, label+"unit")
			types = append(types, gen.VT{Type: n, Unit: fams[f].units[ui]})
		}
		u.Types = types
		o := opts
		if rapid.Bool().Draw(t, label+"nonneg") {
			o.NonNeg = true
		}
		p := gen.FromUniverse(t, u, o)
		p.HasPeriodType, p.PeriodType, p.Period = true, gen.VT{Type: "cpu", Unit: "nanoseconds"}, 1
		return p
	}
	c := &combCase{Mode: rapid.IntRange(0, 2).Draw(t, "mode")}
	ns := rapid.IntRange(1, 3).Draw(t, "nsrc")
	for i := 0; i < ns; i++ {
		c.Srcs = append(c.Srcs, mk("s", i))
	}
	if c.Mode > 0 {
		c.SelfMinus = rapid.IntRange(0, 5).Draw(t, "selfminus") == 0
		nb := rapid.IntRange(1, 2).Draw(t, "nbase")
		for i := 0; i < nb && !c.SelfMinus; i++ {
			c.Bases = append(c.Bases, mk("b", i))
		}
		c.Normalize = rapid.IntRange(0, 3).Draw(t, "normalize") == 0
	}
	c.Big = rapid.IntRange(0, 3).Draw(t, "big") == 0
	c.SI = rapid.SampledFrom([]string{"0", common[0], common[len(common)-1]}).Draw(t, "si") // explicit: the default index after dropping uncommon types is documented separately
	return c
}

func factorOf(unit string) int64 {
	for _, f := range fams {
		for i, u := range f.units {
			if u == unit {
				return f.factors[i]
			}
		}
	}
	return 1
}

// aligned describes the combined sample types: names present in every input, in the first input's order, finest unit.
func aligned(ps []*profile.Profile) (names []string, finest []int64) {
	count := map[string]int{}
	for _, p := range ps {
		for _, st := range p.SampleType {
			count[st.Type]++
		}
	}
	for _, st := range ps[0].SampleType {
		if count[st.Type] == len(ps) {
			names = append(names, st.Type)
			f := int64(0)
			for _, p := range ps {
				for _, st2 := range p.SampleType {
					if st2.Type == st.Type {
						if x := factorOf(st2.Unit); f == 0 || x < f {
							f = x
						}
					}
				}
			}
			finest = append(finest, f)
		}
	}
	return
}

// vec converts a sample's values to the aligned types in the finest units.
func vec(p *profile.Profile, s *profile.Sample, names []string, finest []int64) []int64 {
	out := make([]int64, len(names))
	for i, n := range names {
		for j, st := range p.SampleType {
			if st.Type == n {
				out[i] = s.Value[j] * (factorOf(st.Unit) / finest[i])
			}
		}
	}
	return out
}

func canonSum(ps []*profile.Profile, names []string, finest []int64, mul int64, baseLabel bool, into model.Canon) {
	for _, p := range ps {
		for _, s := range p.Sample {
			k := model.StackKey(s, true)
			if baseLabel {
				s2 := *s
				s2.Label = map[string][]string{}
				for kk, v := range s.Label {
					s2.Label[kk] = v
				}
				s2.Label["pprof::base"] = []string{"true"}
				k = model.StackKey(&s2, true)
			}
			into.Add(k, vec(p, s, names, finest), mul)
		}
	}
}

func build(gs []*gen.Prof) []*profile.Profile {
	var out []*profile.Profile
	for _, g := range gs {
		out = append(out, g.Build().Copy())
	}
	return out
}

func check(c *combCase, o *vk.Obs) []string {
	var e vk.Errs
	srcs := build(c.Srcs)
	bases := build(c.Bases)
	if c.SelfMinus {
		bases = build(c.Srcs)
	}
	big := false
	if c.Big && !c.Normalize {
		// counters beyond 2^53 (not representable in a float64): sums and differences are still exact integers
		same := true
		unit := map[string]string{}
		for _, p := range append(append([]*profile.Profile{}, srcs...), bases...) {
			for _, st := range p.SampleType {
				if u, ok := unit[st.Type]; ok && u != st.Unit {
					same = false
				}
				unit[st.Type] = st.Unit
			}
		}
		if same {
			o.Label("values-beyond-2^53")
			big = true
			for _, p := range append(append([]*profile.Profile{}, srcs...), bases...) {
				if len(p.Sample) > 0 {
					for j, v := range p.Sample[0].Value {
						if v >= 0 {
							p.Sample[0].Value[j] = v + 1<<53 + 1
						} else {
							p.Sample[0].Value[j] = v - 1<<53 - 1
						}
					}
				}
			}
		}
	}
	o.Label([]string{"plain", "base", "diff_base"}[c.Mode])
	o.LabelIf(c.Normalize, "normalize")
	o.LabelIf(c.SelfMinus, "self-minus-self")
	all := append(append([]*profile.Profile{}, srcs...), bases...)
	names, finest := aligned(all)
	if len(names) == 0 {
		return nil
	}
	// classification
	unitsDiffer, orderDiffer := false, false
	for _, p := range all[1:] {
		for i, st := range p.SampleType {
			if i < len(all[0].SampleType) && st.Type != all[0].SampleType[i].Type {
				orderDiffer = true
			}
			for _, st0 := range all[0].SampleType {
				if st0.Type == st.Type && st0.Unit != st.Unit {
					unitsDiffer = true
				}
			}
		}
		if len(p.SampleType) != len(all[0].SampleType) {
			orderDiffer = true
		}
	}
	o.LabelIf(unitsDiffer, "units-differ")
	o.LabelIf(orderDiffer, "types-permuted-or-partial")
	shared := false
	{
		seen := map[string]int{}
		for i, p := range all {
			for _, s := range p.Sample {
				k := model.StackKey(s, true)
				if j, ok := seen[k]; ok && j != i {
					shared = true
				}
				seen[k] = i
			}
		}
	}
	o.NonTrivial = len(all) >= 2 && (unitsDiffer || orderDiffer) && shared

	sources := map[string]*pp.Source{}
	var args []string
	for i, p := range srcs {
		n := fmt.Sprintf("src%d", i)
		sources[n] = &pp.Source{Prof: p}
		args = append(args, n)
	}
	lists := map[string][]string{}
	for i, p := range bases {
		n := fmt.Sprintf("base%d", i)
		sources[n] = &pp.Source{Prof: p}
		key := "base"
		if c.Mode == 2 {
			key = "diff_base"
		}
		lists[key] = append(lists[key], n)
	}
	run := func(extra map[string]string) *pp.Res {
		fl := map[string]string{"output": "out", "normalize": fmt.Sprint(c.Normalize)}
		for k, v := range extra {
			fl[k] = v
		}
		return pp.Run(pp.Req{Flags: fl, Lists: lists, Args: args, Sources: sources})
	}
	res := run(map[string]string{"proto": "true"})
	if res.Panic != "" {
		return []string{"pprof panicked: " + res.Panic}
	}
	if res.Err != nil {
		e.Addf("combining compatible profiles failed: %v", res.Err)
		return e
	}
	out, err := profile.ParseData([]byte(res.Out("out")))
	if err != nil {
		e.Addf("-proto output does not parse: %v", err)
		return e
	}
	// sample types aligned by name, never dropped when present in all inputs
	var gotNames []string
	for _, st := range out.SampleType {
		gotNames = append(gotNames, st.Type)
	}
	if strings.Join(gotNames, ",") != strings.Join(names, ",") {
		e.Addf("combined sample types are %v, the types common to all inputs (first input's order) are %v", gotNames, names)
		return e
	}
	for i, st := range out.SampleType {
		if factorOf(st.Unit) != finest[i] {
			e.Addf("combined type %s is in %s, the finest unit among the inputs has factor %d", st.Type, st.Unit, finest[i])
			return e
		}
	}
	// pprof attaches an all-zero fake mapping to profiles that have none (documented in fetch.go); it is no binary
	got := model.Canon{}
	for k, v := range model.CanonOf(out, true) {
		got.Add(strings.ReplaceAll(k, `bin("",+0,0)@`, "nomap@"), v, 1)
	}
	got = got.DropZero()
	if !c.Normalize {
		want := model.Canon{}
		canonSum(srcs, names, finest, 1, false, want)
		canonSum(bases, names, finest, -1, c.Mode == 2, want)
		want = want.DropZero()
		if !want.Equal(got) {
			e.Addf("combined profile is not the entry-wise sum/difference of the inputs (mode %d):\n%s", c.Mode, want.Diff(got))
		}
		if c.SelfMinus && c.Mode == 1 && len(got) != 0 {
			e.Addf("a profile minus itself is not empty: %d samples", len(got))
		}
	} else {
		// the source is scaled so that its total equals the base total, per type (per-sample rounding)
		srcTot := make([]int64, len(names))
		baseTot := make([]int64, len(names))
		nsrc := 0
		for _, p := range srcs {
			for _, s := range p.Sample {
				for i, v := range vec(p, s, names, finest) {
					srcTot[i] += v
				}
				nsrc++
			}
		}
		for _, p := range bases {
			for _, s := range p.Sample {
				for i, v := range vec(p, s, names, finest) {
					baseTot[i] += v
				}
			}
		}
		// total of everything in the output = scaled source - base  => should be within nsrc/2+1 of 0 when the source total is non-zero
		outTot := make([]int64, len(names))
		for _, s := range out.Sample {
			for i, v := range s.Value {
				outTot[i] += v
			}
		}
		for i := range names {
			if srcTot[i] == 0 {
				continue
			}
			d := outTot[i]
			if d < 0 {
				d = -d
			}
			// Scaling is defined on float64 ("multiplying each value by the ratio"): each scaled value is
			// rounded to an integer (0.5) and carries the relative precision of a float64 product; values
			// that cancel in the source total (+1s, -1s) stay large individually. A product that does not
			// fit an int64 has no representable result at all: not asserted.
			ratio := float64(baseTot[i]) / float64(srcTot[i])
			tol, overflow := 1.0, false
			for _, p := range srcs {
				for _, s := range p.Sample {
					m := math.Abs(float64(vec(p, s, names, finest)[i]) * ratio)
					if m >= 1<<62 {
						overflow = true
					}
					tol += 0.5 + m/(1<<51)
				}
			}
			if overflow {
				o.Label("normalize-overflow")
				continue
			}
			if float64(d) > tol {
				if vk.Known("C07-normalize-drops-samples") && normalizeDropHit(srcs, bases, names, finest) {
					o.Exclude("C07-normalize-drops-samples")
					continue
				}
				e.Addf("-normalize: type %s: scaled source minus base totals %d (source total %d, base total %d, %d source samples)", names[i], outTot[i], srcTot[i], baseTot[i], nsrc)
			}
		}
	}
	// report level: -top of the combination equals the entry-wise sum of the individual reports
	if !c.Normalize {
		idx := len(names) - 1
		switch c.SI {
		case "0":
			idx = 0
		case "":
		default:
			for i, n := range names {
				if n == c.SI {
					idx = i
				}
			}
		}
		unit := ""
		for _, f := range fams {
			for i, fx := range f.factors {
				if fx == finest[idx] && factorOf(out.SampleType[idx].Unit) == fx && f.units[i] == out.SampleType[idx].Unit {
					unit = f.units[i]
				}
			}
		}
		r2 := run(map[string]string{"top": "true", "trim": "false", "sample_index": c.SI, "unit": unit})
		if r2.Panic != "" {
			return append(e, "pprof -top panicked: "+r2.Panic)
		}
		// printed numbers go through a float64 (display rounding is C15's subject): with values beyond 2^53 the
		// exact comparison is the one on the -proto output above, the printed report is only required to exist
		if r2.Err == nil && unit != "" && !big {
			lg, rows, perr := model.ParseTop(r2.Out("out"))
			if perr != nil {
				e.Addf("cannot parse -top: %v", perr)
			} else {
				type fc struct{ flat, cum int64 }
				sum := map[string]*fc{}
				var wantTotal int64
				add := func(ps []*profile.Profile, mul int64, countTotal bool) {
					for _, p := range ps {
						// this input's own report, in its own unit, for the aligned type
						pi := -1
						for j, st := range p.SampleType {
							if st.Type == names[idx] {
								pi = j
							}
						}
						m := model.BuildReport(p, model.RConf{Gran: "functions", SampleIndex: pi, ByName: true})
						f := factorOf(p.SampleType[pi].Unit) / finest[idx]
						for _, r := range m.Rows() {
							if sum[r.Name] == nil {
								sum[r.Name] = &fc{}
							}
							sum[r.Name].flat += mul * r.Flat * f
							sum[r.Name].cum += mul * r.Cum * f
						}
						if countTotal {
							wantTotal += m.Total * f
						}
					}
				}
				add(srcs, 1, c.Mode != 2)
				add(bases, -1, c.Mode == 2)
				var want []model.Row
				for n, v := range sum {
					if v.flat != 0 || v.cum != 0 {
						want = append(want, model.Row{Name: n, Flat: v.flat, Cum: v.cum})
					}
				}
				model.SortRows(want)
				var gotRows []model.Row
				for _, r := range rows {
					gotRows = append(gotRows, r.Row)
				}
				model.SortRows(gotRows)
				same := fmt.Sprint(want) == fmt.Sprint(gotRows)
				if !same && big && len(want) == len(gotRows) {
					// a printed number goes through a float64: beyond 2^53 it reads back within one part in 2^52
					// (display rounding, C15); the exact comparison is the one on the -proto output above
					same = true
					near := func(a, b int64) bool { return math.Abs(float64(a)-float64(b)) <= math.Abs(float64(a))/(1<<51)+1 }
					for i := range want {
						same = same && want[i].Name == gotRows[i].Name && near(want[i].Flat, gotRows[i].Flat) && near(want[i].Cum, gotRows[i].Cum)
					}
				}
				if !same {
					e.Addf("-top of the combination (mode %d, sample_index %q) is not the entry-wise sum of the individual reports:\n   want %v\n   got  %v", c.Mode, c.SI, want, gotRows)
				}
				// with -diff_base percentages are relative to the base total; with plain sources the total is the sum of totals
				if c.Mode == 2 {
					// the base total, after samples with the same stack and labels have been added up
					bc := model.Canon{}
					canonSum(bases, names, finest, 1, false, bc)
					wantTotal = 0
					for _, v := range bc {
						if v[idx] < 0 {
							wantTotal -= v[idx]
						} else {
							wantTotal += v[idx]
						}
					}
				}
				if c.Mode == 2 && wantTotal != 0 {
					// upper bound: no two base samples cancel (e.g. identical frames that pprof keeps apart
					// because one input had no mapping table at all and received the fake mapping)
					var upper int64
					for _, p := range bases {
						for _, s := range p.Sample {
							v := vec(p, s, names, finest)[idx]
							if v < 0 {
								v = -v
							}
							upper += v
						}
					}
					if t := int64(lg.Total); t < wantTotal || t > upper {
						e.Addf("-diff_base: report total is %s, the base total is between %d and %d", lg.TotalStr, wantTotal, upper)
					}
				}
				if c.Mode == 0 && int64(lg.Total) != wantTotal {
					// cancelling samples merge before the total is taken: only an upper bound holds
					if int64(lg.Total) > wantTotal {
						e.Addf("plain combination: report total %s exceeds the sum of the inputs' totals %d", lg.TotalStr, wantTotal)
					}
				}
				// saving with -proto and reopening gives the same report
				r3 := pp.Run(pp.Req{Flags: map[string]string{"output": "out", "top": "true", "trim": "false", "sample_index": c.SI, "unit": unit}, Args: []string{"saved"},
					Sources: map[string]*pp.Source{"saved": {Data: []byte(res.Out("out"))}}})
				if r3.Err == nil && r3.Panic == "" {
					if a, b := stripHeader(r2.Out("out")), stripHeader(r3.Out("out")); a != b {
						e.Addf("saving the combination with -proto and reopening it changes the -top report:\n--- direct\n%s\n--- reopened\n%s", a, b)
					}
				} else {
					e.Addf("reopening the saved combination failed: %v %s", r3.Err, r3.Panic)
				}
			}
		}
	}
	return e
}

// stripHeader keeps the report from the "Showing nodes" line on (file/time lines may legitimately differ).
func stripHeader(s string) string {
	i := strings.Index(s, "Showing nodes")
	if i < 0 {
		return s
	}
	return s[i:]
}

// normalizeDropHit: the recorded finding applies when some column's normalisation ratio is exactly 1
// (source total == base total) while another is not, and a source sample is zero outside that column.
func normalizeDropHit(srcs, bases []*profile.Profile, names []string, finest []int64) bool {
	st := make([]int64, len(names))
	bt := make([]int64, len(names))
	for _, p := range srcs {
		for _, s := range p.Sample {
			for i, v := range vec(p, s, names, finest) {
				st[i] += v
			}
		}
	}
	for _, p := range bases {
		for _, s := range p.Sample {
			for i, v := range vec(p, s, names, finest) {
				bt[i] += v
			}
		}
	}
	one, other := false, false
	for i := range names {
		if st[i] != 0 && st[i] == bt[i] {
			one = true
		} else {
			other = true
		}
	}
	return one && other
}

func TestPropCombine(t *testing.T) {
	vk.Main(t, vk.Spec[combCase]{ID: "C07", Facet: "combine", Quick: 2500, Thorough: 15000, Gen: genCase, Check: check, Journal: true,
		Rule: "1..3 source and 0..2 base profiles assembled from one universe (shared stacks), the same sample types expressed in different units of one family (ns/us/ms/s or bytes/kb/mb), permuted or only partly overlapping type lists, zeros in some columns, values from {0,±1,±2}; mode in {plain, -base, -diff_base} x -normalize x sample_index x self-minus-self; oracle: exact integer arithmetic in the finest common unit on the id-free canonical multiset (observed through -proto), entry-wise sum of the individual reference reports (observed through -top -unit=...), base total for -diff_base, proto save/reopen identity, total equality within rounding for -normalize; non-trivial = >=2 inputs with different units or type order sharing a stack"})
}

var _ = sort.Strings
