package c01

import (
	"bytes"
	"os"
	"path/filepath"
	"sort"
	"testing"

	"github.com/google/pprof/profile"
	"github.com/google/pprof/xverif/gen"
	"github.com/google/pprof/xverif/model"
	"github.com/google/pprof/xverif/vk"
	"pgregory.net/rapid"
)

// ---- facet wire: byte strings produced by an independent profile.proto writer ----

type wireCase struct {
	P    *gen.Prof
	Tape []byte
	Seed uint64
}

var wireOpts = gen.Opts{Alpha: gen.Hostile, MaxSamples: 6, MaxDepth: 5, MaxLines: 3, MinTypes: 1, MaxTypes: 4, Extreme: true, AnyIDs: true, Unused: true,
	Labels: true, NumLabels: true, EmptyLabel: true, EmptyStacks: true, NoMapping: true, Unsym: true, Header: true, Columns: true, Folded: true}

func genWire(t *rapid.T) *wireCase {
	return &wireCase{P: gen.Profile(t, wireOpts), Tape: rapid.SliceOfN(rapid.Byte(), 0, 400).Draw(t, "tape"), Seed: rapid.Uint64().Draw(t, "tapeseed")}
}

// roundTripParsed checks "anything the parser returns survives write-then-parse
// unchanged and re-serialises to identical bytes" (compressed and not).
func roundTripParsed(e *vk.Errs, what string, p1 *profile.Profile) {
	s1 := model.Snap(p1, model.SnapOpts{})
	var b1 bytes.Buffer
	if err := p1.WriteUncompressed(&b1); err != nil {
		e.Addf("%s: WriteUncompressed: %v", what, err)
		return
	}
	if s := model.Snap(p1, model.SnapOpts{}); s != s1 {
		e.Addf("%s: writing changed the parsed profile: %s", what, firstDiff(s1, s))
	}
	p2, err := profile.ParseData(b1.Bytes())
	if err != nil {
		e.Addf("%s: bytes written from a parsed profile are rejected: %v", what, err)
		return
	}
	// the parser's own output is already in normal form, except for labels it
	// itself produced that proto3 cannot carry (legacy parsers emit bytes:[0]).
	if s2 := model.Snap(p2, model.SnapOpts{}); s2 != model.Snap(p1, model.SnapOpts{Norm: true}) {
		e.Addf("%s: parsed profile changed on write-then-parse: %s", what, firstDiff(model.Snap(p1, model.SnapOpts{Norm: true}), s2))
	}
	var b2 bytes.Buffer
	p2.WriteUncompressed(&b2)
	if !bytes.Equal(b1.Bytes(), b2.Bytes()) {
		// allowed only when the parser itself returned a label that the proto cannot carry
		// (legacy heap records with a zero count get bytes:[0]): then the second round must be stable
		if model.Snap(p1, model.SnapOpts{Norm: true}) == s1 {
			e.Addf("%s: re-serialisation not byte-identical (%d vs %d bytes)", what, b1.Len(), b2.Len())
		} else if p3, err := profile.ParseData(b2.Bytes()); err != nil {
			e.Addf("%s: second round does not parse: %v", what, err)
		} else {
			var b3 bytes.Buffer
			p3.WriteUncompressed(&b3)
			if !bytes.Equal(b2.Bytes(), b3.Bytes()) {
				e.Addf("%s: re-serialisation not byte-identical after normalisation (%d vs %d bytes)", what, b2.Len(), b3.Len())
			}
		}
		b1 = b2
	}
	var gz bytes.Buffer
	if err := p2.Write(&gz); err != nil {
		e.Addf("%s: Write: %v", what, err)
		return
	}
	p3, err := profile.Parse(bytes.NewReader(gz.Bytes()))
	if err != nil {
		e.Addf("%s: compressed bytes rejected: %v", what, err)
		return
	}
	var b3 bytes.Buffer
	p3.WriteUncompressed(&b3)
	if !bytes.Equal(b1.Bytes(), b3.Bytes()) {
		e.Addf("%s: compressed path re-serialises differently", what)
	}
	if c := p2.Copy(); model.Snap(c, model.SnapOpts{}) != model.Snap(p2, model.SnapOpts{}) {
		e.Addf("%s: Copy differs from original: %s", what, firstDiff(model.Snap(p2, model.SnapOpts{}), model.Snap(c, model.SnapOpts{})))
	}
}

func checkWire(c *wireCase, o *vk.Obs) []string {
	var e vk.Errs
	classify(c.P, o)
	o.Label("independent-wire-writer")
	o.NonTrivial = (len(c.Tape) > 0 || c.Seed != 0) && (o.NonTrivial || len(c.P.Samples) > 0)
	data := gen.Wire(c.P, &gen.Tape{B: c.Tape, Seed: c.Seed})
	want := model.Snap(c.P.Build(), model.SnapOpts{Norm: true})
	for _, path := range []string{"ParseData", "ParseUncompressed"} {
		var p1 *profile.Profile
		var err error
		if path == "ParseData" {
			p1, err = profile.ParseData(data)
		} else {
			p1, err = profile.ParseUncompressed(data)
		}
		if err != nil {
			e.Addf("%s rejects a well-formed profile.proto encoding: %v", path, err)
			continue
		}
		if got := model.Snap(p1, model.SnapOpts{}); got != want {
			e.Addf("%s: decoded profile differs from what the encoding says: %s", path, firstDiff(want, got))
			continue
		}
		roundTripParsed(&e, path, p1)
	}
	return e
}

func TestPropWire(t *testing.T) {
	vk.Main(t, vk.Spec[wireCase]{ID: "C01", Facet: "wire", Quick: 2500, Thorough: 20000, Gen: genWire, Check: checkWire,
		Rule: "profiles serialised by the harness's own profile.proto writer with choices the real encoder never makes (packed/unpacked/split repeated scalars, shuffled fields, interleaved tables, string table anywhere, duplicate string entries, explicit defaults, non-minimal varints, last-wins duplicates, unknown fields of every wire type); oracle: decoded snapshot == intended profile, then write/parse/re-serialise identity; non-trivial = non-empty choice tape and >=1 sample or representation threshold"})
}

// ---- facet edit: a parsed/copied profile is edited through the exported API, then written ----

type editOp struct {
	Kind   int
	Key    string
	Idx    int
	Vals   []string
	Nums   []int64
	Units  []string
	Ratio  int
	Sample int
}

type editCase struct {
	P     *gen.Prof
	First int // 0: Copy, 1: parse(Write), 2: write once then keep using the same object
	Ops   []editOp
}

var editOpts = gen.Opts{Alpha: gen.Plain, MaxSamples: 6, MaxDepth: 4, MaxLines: 3, MinTypes: 1, MaxTypes: 3, AnyIDs: true, Unused: true,
	Labels: true, NumLabels: true, EmptyStacks: true, NoMapping: true, Unsym: true, Header: true, Columns: true}

func genEdit(t *rapid.T) *editCase {
	c := &editCase{P: gen.Profile(t, editOpts), First: rapid.IntRange(0, 2).Draw(t, "first")}
	keys := []string{"k", "tag", "user", "bytes", "request", "alignment", "thread", "newkey"}
	n := rapid.IntRange(1, 5).Draw(t, "nops")
	for i := 0; i < n; i++ {
		op := editOp{Kind: rapid.IntRange(0, 9).Draw(t, "kind"), Key: rapid.SampledFrom(keys).Draw(t, "key"), Idx: rapid.IntRange(0, 8).Draw(t, "idx"),
			Ratio: rapid.IntRange(0, 3).Draw(t, "ratio"), Sample: rapid.IntRange(0, 8).Draw(t, "sample")}
		nv := rapid.IntRange(1, 3).Draw(t, "nv")
		for j := 0; j < nv; j++ {
			op.Vals = append(op.Vals, rapid.SampledFrom([]string{"a", "b", "c"}).Draw(t, "v"))
			op.Nums = append(op.Nums, rapid.Int64Range(1, 100).Draw(t, "n"))
			op.Units = append(op.Units, rapid.SampledFrom([]string{"", "bytes", "ms"}).Draw(t, "u"))
		}
		c.Ops = append(c.Ops, op)
	}
	return c
}

func applyEdit(p *profile.Profile, op editOp) {
	switch op.Kind {
	case 0:
		p.RemoveLabel(op.Key)
	case 1:
		p.RemoveNumLabel(op.Key)
	case 2:
		p.SetLabel(op.Key, append([]string{}, op.Vals...))
	case 3:
		if op.Idx%2 == 0 {
			p.SetNumLabel(op.Key, append([]int64{}, op.Nums...), append([]string{}, op.Units...))
		} else {
			p.SetNumLabel(op.Key, append([]int64{}, op.Nums...), nil)
		}
	case 4: // drop all labels of one sample by assigning nil maps (documented exported fields)
		if len(p.Sample) > 0 {
			s := p.Sample[op.Sample%len(p.Sample)]
			s.Label, s.NumLabel, s.NumUnit = nil, nil, nil
		}
	case 5: // remove a sample
		if len(p.Sample) > 0 {
			i := op.Sample % len(p.Sample)
			p.Sample = append(p.Sample[:i:i], p.Sample[i+1:]...)
		}
	case 6:
		p.Scale(float64(op.Ratio))
	case 7: // truncate a stack
		if len(p.Sample) > 0 {
			s := p.Sample[op.Sample%len(p.Sample)]
			if len(s.Location) > 0 {
				s.Location = s.Location[:len(s.Location)-1]
			}
		}
	case 8: // header edits
		p.Comments = append(p.Comments, "edited")
		p.DropFrames = op.Key
	case 9: // empty the label maps of every sample but keep them non-nil
		for _, s := range p.Sample {
			for k := range s.Label {
				delete(s.Label, k)
			}
			for k := range s.NumLabel {
				delete(s.NumLabel, k)
				delete(s.NumUnit, k)
			}
		}
	}
}

func checkEdit(c *editCase, o *vk.Obs) []string {
	var e vk.Errs
	p0 := c.P.Build()
	var p *profile.Profile
	switch c.First {
	case 0:
		p = p0.Copy()
		o.Label("after-copy")
	case 1:
		var b bytes.Buffer
		p0.Write(&b)
		var err error
		p, err = profile.ParseData(b.Bytes())
		if err != nil {
			return []string{"valid profile rejected: " + err.Error()}
		}
		o.Label("after-parse")
	default:
		p = p0
		var b bytes.Buffer
		p.WriteUncompressed(&b)
		o.Label("after-write")
	}
	labelled := false
	for _, s := range p.Sample {
		if len(s.Label)+len(s.NumLabel) > 0 {
			labelled = true
		}
	}
	for _, op := range c.Ops {
		applyEdit(p, op)
		o.Label([]string{"RemoveLabel", "RemoveNumLabel", "SetLabel", "SetNumLabel", "nil-labels", "drop-sample", "Scale", "truncate-stack", "header", "empty-label-maps"}[op.Kind])
	}
	if err := model.Valid(p); err != nil {
		return []string{"edit produced invalid profile (harness bug): " + err.Error()}
	}
	o.NonTrivial = labelled && len(p.Sample) > 0
	want := model.Snap(p, model.SnapOpts{Norm: true})
	before := model.Snap(p, model.SnapOpts{})
	for round := 0; round < 2; round++ {
		var gz, raw bytes.Buffer
		p.Write(&gz)
		p.WriteUncompressed(&raw)
		for name, data := range map[string][]byte{"Write": gz.Bytes(), "WriteUncompressed": raw.Bytes()} {
			got, err := profile.ParseData(data)
			if err != nil {
				e.Addf("round %d %s: edited valid profile does not parse back: %v", round, name, err)
				continue
			}
			if s := model.Snap(got, model.SnapOpts{}); s != want {
				e.Addf("round %d %s: parsed-back profile differs from the edited profile: %s", round, name, firstDiff(want, s))
			}
		}
		if c := p.Copy(); model.Snap(c, model.SnapOpts{}) != want {
			e.Addf("round %d Copy differs from the edited profile: %s", round, firstDiff(want, model.Snap(c, model.SnapOpts{})))
		}
	}
	if s := model.Snap(p, model.SnapOpts{}); s != before {
		e.Addf("serialising changed the profile: %s", firstDiff(before, s))
	}
	return e
}

func TestPropEdit(t *testing.T) {
	vk.Main(t, vk.Spec[editCase]{ID: "C01", Facet: "edit", Quick: 2500, Thorough: 20000, Gen: genEdit, Check: checkEdit,
		Rule: "histories: a profile that was copied / parsed / already written once is edited through the exported API and fields (Remove/Set(Num)Label, nil or emptied label maps, dropped samples, Scale, truncated stacks, header edits) and then written by every path twice; oracle: snapshot of the edited profile; non-trivial = the pre-edit profile had labelled samples and a sample survives"})
}

// ---- facet corpus: every profile shipped in the repository's testdata ----

type corpusCase struct {
	File string
}

func corpusFiles() []string {
	var out []string
	for _, dir := range []string{"/repo/profile/testdata", "/repo/internal/driver/testdata", "/repo/fuzz/testdata", "/repo/internal/report/testdata"} {
		filepath.Walk(dir, func(path string, info os.FileInfo, err error) error {
			if err == nil && !info.IsDir() && info.Size() < 4<<20 {
				out = append(out, path)
			}
			return nil
		})
	}
	sort.Strings(out)
	return out
}

func TestPropCorpus(t *testing.T) {
	files := corpusFiles()
	if root := os.Getenv("VERIF_REPO"); root != "" {
		for i := range files {
			files[i] = root + files[i][len("/repo"):]
		}
	}
	vk.Main(t, vk.Spec[corpusCase]{ID: "C01", Facet: "corpus", Quick: len(files) * 3, Thorough: len(files) * 3,
		Gen: func(t *rapid.T) *corpusCase { return &corpusCase{File: rapid.SampledFrom(files).Draw(t, "file")} },
		Check: func(c *corpusCase, o *vk.Obs) []string {
			var e vk.Errs
			data, err := os.ReadFile(c.File)
			if err != nil {
				return nil
			}
			p1, err := profile.ParseData(data)
			if err != nil {
				o.Label("rejected")
				return nil
			}
			o.Label("accepted")
			o.NonTrivial = len(p1.Sample) > 0
			roundTripParsed(&e, filepath.Base(c.File), p1)
			return e
		},
		Rule: "every file under the repository's testdata directories (protobuf and all legacy formats) that Parse accepts: parsed result must survive write-then-parse and re-serialise byte-identically; non-trivial = accepted with >=1 sample; distinct by file"})
}
