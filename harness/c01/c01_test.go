package c01

import (
	"bytes"
	"fmt"
	"testing"

	"github.com/google/pprof/profile"
	"github.com/google/pprof/xverif/gen"
	"github.com/google/pprof/xverif/model"
	"github.com/google/pprof/xverif/pp"
	"github.com/google/pprof/xverif/vk"
	"pgregory.net/rapid"
)

// ---- facet mem: in-memory profile -> write -> parse ----

type memCase struct {
	P *gen.Prof
}

var memOpts = gen.Opts{OddTypes: true, Alpha: gen.Hostile, MaxSamples: 10, MaxDepth: 5, MaxLines: 4, MinTypes: 0, MaxTypes: 4, Extreme: true, AnyIDs: true, Unused: true,
	Labels: true, NumLabels: true, EmptyLabel: true, EmptyStacks: true, NoMapping: true, Unsym: true, Header: true, Columns: true, Folded: true}

// texts that are the opening line of one of the legacy (text) profile formats
var legacyLooking = []string{"heap profile: 1: 2 [ 3: 4] @ heapprofile", "heap profile: 1: 2 [ 3: 4] @ heap_v2/524288", "--- threadz 1 ---", "--- contentionz 1 ---", "--- heapz 1 ---",
	"goroutine profile: total 1", "--- mutex:", "--- contention:", "--- Memory map: ---", "MAPPED_LIBRARIES:"}

func genMem(t *rapid.T) *memCase {
	p := gen.Profile(t, memOpts)
	if rapid.IntRange(0, 14).Draw(t, "headeronly") == 0 {
		// a profile that only carries metadata (the 0 end of "0..k sample types"), whose free-form texts happen
		// to read like the first line of a legacy profile
		p.SampleTypes, p.Samples, p.Locations, p.Functions, p.Mappings, p.DefaultSampleType = nil, nil, nil, nil, nil, ""
		p.Comments = rapid.SliceOfN(rapid.SampledFrom(legacyLooking), 1, 3).Draw(t, "legacycomments")
		if rapid.Bool().Draw(t, "legacydoc") {
			p.DocURL = rapid.SampledFrom(legacyLooking).Draw(t, "legacydocurl")
		}
	}
	return &memCase{P: p}
}

func firstDiff(a, b string) string {
	la, lb := bytes.Split([]byte(a), []byte("\n")), bytes.Split([]byte(b), []byte("\n"))
	for i := 0; i < len(la) || i < len(lb); i++ {
		var x, y string
		if i < len(la) {
			x = string(la[i])
		}
		if i < len(lb) {
			y = string(lb[i])
		}
		if x != y {
			return fmt.Sprintf("line %d:\n   want %s\n   got  %s", i, x, y)
		}
	}
	return "(equal)"
}

func classify(p *gen.Prof, o *vk.Obs) {
	rich := false
	for _, s := range p.Samples {
		if len(s.Locs) >= 1 && (len(s.Labels) > 0 || len(s.Nums) > 0) {
			rich = true
		}
		o.LabelIf(len(s.Values) > 2, "packed-values")
		o.LabelIf(len(s.Locs) > 2, "packed-locs")
		o.LabelIf(len(s.Locs) == 0, "empty-stack")
		for _, l := range s.Labels {
			o.LabelIf(len(l.Vals) > 1, "multi-valued-label")
			for _, v := range l.Vals {
				o.LabelIf(v == "", "dropped-label")
			}
		}
		for _, n := range s.Nums {
			for i, v := range n.Vals {
				u := ""
				if n.HasUnits {
					u = n.Units[i]
				}
				o.LabelIf(v == 0 && u == "", "dropped-label")
				o.LabelIf(v == 0 && u != "", "zero-with-unit")
			}
			if n.HasUnits {
				some, all := false, true
				for _, u := range n.Units {
					if u != "" {
						some = true
					} else {
						all = false
					}
				}
				o.LabelIf(some && !all, "unit-padding")
			}
		}
	}
	o.LabelIf(rich, "rich-sample")
	for i, l := range p.Locations {
		o.LabelIf(l.ID >= uint64(len(p.Locations)+1), "sparse-id")
		o.LabelIf(l.ID != uint64(i+1), "non-dense-id")
		o.LabelIf(len(l.Lines) > 1, "inlined")
		o.LabelIf(len(l.Lines) == 0, "unsymbolized")
	}
	for _, f := range p.Functions {
		o.LabelIf(f.ID >= uint64(len(p.Functions)+1), "sparse-id")
	}
	o.LabelIf(len(p.SampleTypes) == 0, "no-sample-types")
	o.NonTrivial = rich || o.Labels["packed-values"] || o.Labels["packed-locs"] || o.Labels["sparse-id"] || o.Labels["unit-padding"] || o.Labels["dropped-label"]
}

func checkMem(c *memCase, o *vk.Obs) []string {
	var e vk.Errs
	classify(c.P, o)
	p := c.P.Build()
	if err := model.Valid(p); err != nil {
		return []string{"generator produced invalid profile (harness bug): " + err.Error()}
	}
	before := model.Snap(p, model.SnapOpts{})
	want := model.Snap(p, model.SnapOpts{Norm: true})

	var gz, raw bytes.Buffer
	if err := p.Write(&gz); err != nil {
		e.Addf("Write: %v", err)
	}
	if err := p.WriteUncompressed(&raw); err != nil {
		e.Addf("WriteUncompressed: %v", err)
	}
	if s := model.Snap(p, model.SnapOpts{}); s != before {
		e.Addf("writing changed the input profile: %s", firstDiff(before, s))
	}
	type path struct {
		name string
		f    func() (*profile.Profile, error)
	}
	paths := []path{
		{"Parse(Write)", func() (*profile.Profile, error) { return profile.Parse(bytes.NewReader(gz.Bytes())) }},
		{"ParseData(Write)", func() (*profile.Profile, error) { return profile.ParseData(gz.Bytes()) }},
		{"ParseData(WriteUncompressed)", func() (*profile.Profile, error) { return profile.ParseData(raw.Bytes()) }},
		{"ParseUncompressed(WriteUncompressed)", func() (*profile.Profile, error) { return profile.ParseUncompressed(raw.Bytes()) }},
		{"Copy", func() (*profile.Profile, error) { return p.Copy(), nil }},
	}
	for _, pa := range paths {
		got, err := pa.f()
		if err != nil {
			e.Addf("%s: valid profile rejected: %v", pa.name, err)
			continue
		}
		if s := model.Snap(got, model.SnapOpts{}); s != want {
			e.Addf("%s differs from the input: %s", pa.name, firstDiff(want, s))
			continue
		}
		// anything the parser returns survives write-then-parse unchanged and re-serialises identically
		var b1, b2 bytes.Buffer
		got.WriteUncompressed(&b1)
		p2, err := profile.ParseData(b1.Bytes())
		if err != nil {
			e.Addf("%s: re-parse failed: %v", pa.name, err)
			continue
		}
		if s := model.Snap(p2, model.SnapOpts{}); s != model.Snap(got, model.SnapOpts{}) {
			e.Addf("%s: parsed profile changed on write-then-parse: %s", pa.name, firstDiff(model.Snap(got, model.SnapOpts{}), s))
		}
		p2.WriteUncompressed(&b2)
		if !bytes.Equal(b1.Bytes(), b2.Bytes()) {
			e.Addf("%s: re-serialisation is not byte-identical (%d vs %d bytes)", pa.name, b1.Len(), b2.Len())
		}
	}
	if s := model.Snap(p, model.SnapOpts{}); s != before {
		e.Addf("Copy/parse changed the input profile: %s", firstDiff(before, s))
	}
	return e
}

func TestPropMem(t *testing.T) {
	vk.Main(t, vk.Spec[memCase]{ID: "C01", Facet: "mem", Quick: 3000, Thorough: 25000, Gen: genMem, Check: checkMem,
		Rule: "rapid-generated in-memory profiles (hostile strings incl. invalid UTF-8, extreme ints, dense/permuted/sparse/huge ids, unused entities, 0..4 sample types, multi-valued labels, unit lists nil/empty/mixed/full, 0..4 inline lines) through Write/WriteUncompressed/Parse/ParseData/ParseUncompressed/Copy; non-trivial = a sample with >=1 location and >=1 label, or the case crosses a representation threshold (packed lists, sparse ids, unit padding, droppable label); distinct by case hash"})
}

// ---- facet bulk: large, highly repetitive profiles (the compressed form is hundreds of times smaller) ----

type bulkCase struct {
	P   *gen.Prof
	Rep int
}

var bulkOpts = gen.Opts{Alpha: gen.Plain, MaxSamples: 3, MaxDepth: 4, MaxLines: 2, MinTypes: 1, MaxTypes: 2, AnyIDs: true, Labels: true, NumLabels: true}

func genBulk(t *rapid.T) *bulkCase {
	return &bulkCase{P: gen.Profile(t, bulkOpts), Rep: rapid.SampledFrom([]int{500, 5000, 20000, 60000, 150000}).Draw(t, "rep")}
}

func checkBulk(c *bulkCase, o *vk.Obs) []string {
	var e vk.Errs
	p := c.P.Build()
	if len(p.Sample) == 0 {
		return nil
	}
	base := p.Sample
	for i := 1; i < c.Rep; i++ {
		s := *base[i%len(base)]
		p.Sample = append(p.Sample, &s)
	}
	var gz, raw bytes.Buffer
	if err := p.Write(&gz); err != nil {
		return []string{"Write: " + err.Error()}
	}
	p.WriteUncompressed(&raw)
	ratio := raw.Len() / (gz.Len() + 1)
	o.Label(fmt.Sprintf("ratio>=%d", ratio/100*100))
	o.NonTrivial = ratio >= 100
	want := model.Snap(p, model.SnapOpts{Norm: true})
	for name, f := range map[string]func() (*profile.Profile, error){
		"Parse(Write)":                 func() (*profile.Profile, error) { return profile.Parse(bytes.NewReader(gz.Bytes())) },
		"ParseData(Write)":             func() (*profile.Profile, error) { return profile.ParseData(gz.Bytes()) },
		"ParseData(WriteUncompressed)": func() (*profile.Profile, error) { return profile.ParseData(raw.Bytes()) },
	} {
		got, err := f()
		if err != nil {
			e.Addf("%s: valid profile of %d samples (%d bytes, %d compressed) rejected: %v", name, len(p.Sample), raw.Len(), gz.Len(), err)
			continue
		}
		if len(got.Sample) != len(p.Sample) {
			e.Addf("%s: %d samples written, %d read back (%d bytes, %d compressed)", name, len(p.Sample), len(got.Sample), raw.Len(), gz.Len())
			continue
		}
		if s := model.Snap(got, model.SnapOpts{}); s != want {
			e.Addf("%s differs from the input: %s", name, firstDiff(want, s))
		}
	}
	return e
}

func TestPropBulk(t *testing.T) {
	vk.Main(t, vk.Spec[bulkCase]{ID: "C01", Facet: "bulk", Quick: 25, Thorough: 120, Gen: genBulk, Check: checkBulk,
		Rule: "small generated profiles whose samples are repeated 500..150000 times (raw size up to several MB, compressed several hundred times smaller) through Write/Parse, Write/ParseData and WriteUncompressed/ParseData; oracle: same sample count and same structural snapshot; non-trivial = compression ratio >= 100"})
}

// ---- facet proto: the report layer's -proto output (what 'pprof -proto' and the interactive 'proto' write) ----

type protoCase struct {
	P *gen.Prof
}

var protoOpts = gen.Opts{Alpha: gen.Plain, MaxSamples: 8, MaxDepth: 4, MaxLines: 3, MinTypes: 1, MaxTypes: 3, Extreme: true, AnyIDs: true, NoHugeIDs: true,
	Labels: true, NumLabels: true, EmptyStacks: true, Unsym: true, Columns: true, Folded: true}

func genProto(t *rapid.T) *protoCase { return &protoCase{P: gen.Profile(t, protoOpts)} }

func checkProto(c *protoCase, o *vk.Obs) []string {
	var e vk.Errs
	classify(c.P, o)
	gp := *c.P
	gp.DropFrames, gp.KeepFrames = "", "" // pruning is C11's subject
	p := gp.Build().Copy()                // what pprof is given is a parsed profile
	if len(p.SampleType) == 0 {
		return nil
	}
	res := pp.Run(pp.Req{Flags: map[string]string{"proto": "true", "output": "out"}, Args: []string{"src"}, Sources: map[string]*pp.Source{"src": {Prof: p}}})
	if res.Panic != "" {
		return []string{"pprof panicked: " + res.Panic}
	}
	if res.Err != nil {
		if len(p.Sample) == 0 {
			return nil
		}
		e.Addf("pprof -proto failed on a valid profile: %v", res.Err)
		return e
	}
	out, err := profile.ParseData([]byte(res.Out("out")))
	if err != nil {
		return []string{"pprof -proto output does not parse: " + err.Error()}
	}
	extreme := false
	for _, s := range p.Sample {
		for _, v := range s.Value {
			if v > 1<<53 || v < -(1<<53) {
				extreme = true
			}
		}
	}
	o.LabelIf(extreme, "value-beyond-2^53")
	o.NonTrivial = len(p.Sample) > 0
	if len(out.Sample) != len(p.Sample) {
		e.Addf("-proto wrote %d samples for a profile of %d", len(out.Sample), len(p.Sample))
		return e
	}
	for i, s := range p.Sample {
		g := out.Sample[i]
		if fmt.Sprint(g.Value) != fmt.Sprint(s.Value) {
			e.Addf("-proto: sample %d has values %v, the profile has %v", i, g.Value, s.Value)
		}
		if a, b := model.StackKey(s, false), model.StackKey(g, false); a != b {
			e.Addf("-proto: sample %d: stack/labels differ:\n   profile %s\n   output  %s", i, a, b)
		}
	}
	for i, st := range p.SampleType {
		if i >= len(out.SampleType) || out.SampleType[i].Type != st.Type || out.SampleType[i].Unit != st.Unit {
			e.Addf("-proto: sample type %d differs", i)
		}
	}
	if out.Period != p.Period || out.TimeNanos != p.TimeNanos || out.DurationNanos != p.DurationNanos {
		e.Addf("-proto: period/time/duration differ: %d/%d/%d vs %d/%d/%d", out.Period, out.TimeNanos, out.DurationNanos, p.Period, p.TimeNanos, p.DurationNanos)
	}
	return e
}

func TestPropProto(t *testing.T) {
	vk.Main(t, vk.Spec[protoCase]{ID: "C01", Facet: "proto", Quick: 2000, Thorough: 15000, Gen: genProto, Check: checkProto, Journal: true,
		Rule: "generated profiles (extreme int64 values, sparse ids, labels with units, inline lines, empty stacks, unsymbolized frames) written by the driver's -proto report with no filter set, and parsed back; oracle: same samples in the same order with the same values, stacks (binary, relative address, folded flag, every inline line) and labels, same sample types, period, time and duration; non-trivial = the profile has samples"})
}
