package tmpprobe

import (
	"encoding/base64"
	"encoding/json"
	"fmt"
	"os"
	"testing"

	"github.com/google/pprof/profile"
)

func TestProbe(t *testing.T) {
	raw, _ := os.ReadFile("/verif/replays/C14/legacy-1268d91a0871.json")
	var d map[string]any
	json.Unmarshal(raw, &d)
	_ = base64.StdEncoding
	// rebuild the input from the doc: words
	words := []uint64{0, 3, 0, 1, 0, 128, 1, 0x2002, 128, 1, 0x2032, 128, 1, 0x2002, 128, 2, 0x2032, 0x6000, 0, 1, 0}
	var b []byte
	for _, w := range words {
		for i := 7; i >= 0; i-- {
			b = append(b, byte(w>>(8*uint(i))))
		}
	}
	p, err := profile.ParseUncompressed(b)
	fmt.Println("ParseUncompressed:", err)
	if p != nil {
		fmt.Println(p.String(), p.CheckValid())
	}
	p2, err := profile.ParseData(b)
	fmt.Println("ParseData:", err)
	if p2 != nil {
		fmt.Println(p2.String())
	}
}
