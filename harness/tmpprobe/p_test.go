package tmpprobe

import (
	"fmt"
	"testing"

	"github.com/google/pprof/profile"
	"github.com/google/pprof/xverif/pp"
)

func TestProbe(t *testing.T) {
	mk := func() *profile.Profile {
		m := &profile.Mapping{ID: 1, Start: 0x400000, Limit: 0x500000, File: "/bin/app", HasFunctions: true, HasFilenames: true, HasLineNumbers: true}
		p := &profile.Profile{SampleType: []*profile.ValueType{{Type: "samples", Unit: "count"}}, PeriodType: &profile.ValueType{Type: "cpu", Unit: "nanoseconds"}, Period: 1, Mapping: []*profile.Mapping{m}}
		files := []string{"/r/proj/x/proj/foo.c", "/r/proj/x/proj/bar.c", "/r/other/baz.c"}
		for i, f := range files {
			fn := &profile.Function{ID: uint64(i + 1), Name: fmt.Sprintf("f%d", i), SystemName: fmt.Sprintf("f%d", i), Filename: f}
			l := &profile.Location{ID: uint64(i + 1), Mapping: m, Address: 0x400100 + uint64(i)*16, Line: []profile.Line{{Function: fn, Line: 3}}}
			p.Function = append(p.Function, fn)
			p.Location = append(p.Location, l)
			p.Sample = append(p.Sample, &profile.Sample{Location: []*profile.Location{l}, Value: []int64{int64(10 * (i + 1))}})
		}
		return p
	}
	for _, fl := range []map[string]string{
		{"source_path": "/my/proj", "nodecount": "2"},
		{"source_path": "/my/proj", "nodecount": "0"},
		{"trim_path": "r", "nodecount": "2"},
	} {
		f := map[string]string{"top": "true", "output": "out", "lines": "true", "functions": "false"}
		for k, v := range fl {
			f[k] = v
		}
		res := pp.Run(pp.Req{Flags: f, Args: []string{"src"}, Sources: map[string]*pp.Source{"src": {Prof: mk()}}})
		fmt.Println(fl, res.Err, "\n"+res.Out("out"))
	}
}
