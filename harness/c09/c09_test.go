package c09

import (
	"fmt"
	"path/filepath"
	"strings"
	"testing"
	"time"

	"github.com/google/pprof/xverif/gen"
	"github.com/google/pprof/xverif/pp"
	"github.com/google/pprof/xverif/vk"
	"pgregory.net/rapid"
)

var hostOpts = gen.Opts{Alpha: gen.Hostile, MaxSamples: 5, MaxDepth: 4, MaxLines: 3, MinTypes: 1, MaxTypes: 3, Extreme: true, AnyIDs: true, Unused: true,
	Labels: true, NumLabels: true, EmptyLabel: true, EmptyStacks: true, NoMapping: true, Unsym: true, Header: true, Columns: true, Folded: true, NearDup: true}

var long = strings.Repeat("a", 10000)

var hostileStrings = []string{"", "(", "[a-", "*", "(?P<", `\`, "a|", "|", "^$", ".", ".*", long, "99999999999999999999", "-99999999999999999999", "1:2:3", ":", "=", "k=", "=v", "k=1:",
	"99999999999999999999kb:", ":99999999999999999999", "1kb:1s", "0", "-1", "1e999", "NaN", "\x00", "\xff\xfe", "a b", " ", "//:", "x //: y", ">", "%s%d%n", "k=(", "bytes=:", "bytes=1mb:2kb",
	"+5", "5+", "1b", "1zz", "zz1", "tag,(", ",", ",,", "$", "main", "k", "bytes", "k:v", "1:", ":1", "4096b", "(?i)MAIN", "[[:alpha:]]+", "\\p{Greek}", "(a*)*b", "a{1000}", "a{2,1}",
	// multi-byte text around the lengths at which reports shorten what they print (80 bytes / 80 characters)
	strings.Repeat("界", 25), strings.Repeat("界", 27), strings.Repeat("界", 40), "main|" + strings.Repeat("é", 50), strings.Repeat("a", 79) + "界", strings.Repeat("x", 81), strings.Repeat("\xff", 90), strings.Repeat("😀", 21)}

var stringOptions = []string{"focus", "ignore", "hide", "show", "show_from", "prune_from", "tagfocus", "tagignore", "tagshow", "taghide", "tagroot", "tagleaf", "unit", "sample_index", "source_path", "trim_path", "symbolize"}
var numOptions = map[string][]string{
	"nodecount":    {"-1", "0", "1", "-5", "2147483647", "-2147483648", "80"},
	"nodefraction": {"0", "1", "2", "-1", "NaN", "Inf", "-Inf", "1e-300", "0.5"},
	"edgefraction": {"0", "1", "NaN", "Inf", "-1", "1e300"},
	"divide_by":    {"1", "0", "-1", "NaN", "Inf", "1e-300", "1e300", "-0"},
}
var boolOptions = []string{"call_tree", "relative_percentages", "compact_labels", "intel_syntax", "mean", "normalize", "drop_negative", "trim", "noinlines", "showcolumns"}
var commands = []string{"top", "text", "tree", "peek", "traces", "raw", "tags", "comments", "dot", "callgrind", "proto", "topproto", "list", "disasm", "weblist", "svg", "png", "gif", "pdf", "ps", "web", "gv", "eog", "evince", "kcachegrind"}
var paramCommands = map[string]bool{"peek": true, "list": true, "disasm": true, "weblist": true}

type assign struct{ Name, Value string }

func genAssigns(t *rapid.T, max int) []assign {
	n := rapid.IntRange(0, max).Draw(t, "nassign")
	var out []assign
	for i := 0; i < n; i++ {
		switch rapid.IntRange(0, 3).Draw(t, "akind") {
		case 0, 1:
			out = append(out, assign{rapid.SampledFrom(stringOptions).Draw(t, "sopt"), rapid.SampledFrom(hostileStrings).Draw(t, "sval")})
		case 2:
			names := []string{"nodecount", "nodefraction", "edgefraction", "divide_by"}
			n := rapid.SampledFrom(names).Draw(t, "nopt")
			out = append(out, assign{n, rapid.SampledFrom(numOptions[n]).Draw(t, "nval")})
		default:
			out = append(out, assign{rapid.SampledFrom(boolOptions).Draw(t, "bopt"), rapid.SampledFrom([]string{"true", "false"}).Draw(t, "bval")})
		}
	}
	return out
}

// ---- facet cli: one-shot command with hostile option values ----

type cliCase struct {
	P       *gen.Prof
	Assigns []assign
	Cmd     string
	Param   string
	Gran    string
	// the profile's own frame-dropping expressions (each may be absent, valid or not a regular expression)
	Drop, Keep string
	// Multi: 0 one source; 1 the profile given twice (merged); 2 also as -base; 3 also as -diff_base
	Multi int
	// ZeroBase (with -base / -diff_base): the base's first value column is all zero and the report is a mean
	ZeroBase bool
}

// pathValues: what people put into trim_path / source_path (lists, trailing separators, the root, a file name
// of the profile itself)
func pathValues(p *gen.Prof) []string {
	out := []string{"/", ":", "/:", "/src/app:", ":/usr", "/proc/self/cwd", "/proc/self/cwd/", ".", "..", "//", "/usr/src:/usr/src/"}
	for _, f := range p.Functions {
		if f.Filename != "" {
			out = append(out, f.Filename, f.Filename+"/", filepath.Dir(f.Filename))
		}
	}
	return out
}

func genCLI(t *rapid.T) *cliCase {
	c := &cliCase{P: gen.Profile(t, hostOpts), Assigns: genAssigns(t, 4), Cmd: rapid.SampledFrom(commands).Draw(t, "cmd"),
		Param: rapid.SampledFrom(hostileStrings).Draw(t, "param"), Gran: rapid.SampledFrom([]string{"functions", "filefunctions", "files", "lines", "addresses"}).Draw(t, "gran")}
	c.Multi = rapid.SampledFrom([]int{0, 0, 0, 1, 2, 3}).Draw(t, "multi")
	c.ZeroBase = rapid.Bool().Draw(t, "zerobase")
	frameRx := []string{"", "", "", "main", ".*", "(", "zzz", "a|b"}
	c.Drop, c.Keep = rapid.SampledFrom(frameRx).Draw(t, "dropframes"), rapid.SampledFrom(frameRx).Draw(t, "keepframes")
	for i, a := range c.Assigns {
		if (a.Name == "trim_path" || a.Name == "source_path") && rapid.Bool().Draw(t, "pathvalue") {
			c.Assigns[i].Value = rapid.SampledFrom(pathValues(c.P)).Draw(t, "pathv")
		}
	}
	if rapid.IntRange(0, 5).Draw(t, "withpaths") == 0 {
		c.Assigns = append(c.Assigns, assign{rapid.SampledFrom([]string{"trim_path", "source_path"}).Draw(t, "pathopt"), rapid.SampledFrom(pathValues(c.P)).Draw(t, "pathv2")})
	}
	if (c.Cmd == "list" || c.Cmd == "weblist") && rapid.Bool().Draw(t, "farlines") {
		// one function sampled at two lines that are very far apart, listed by a pattern that matches it
		farLines(c.P)
		c.Param = rapid.SampledFrom([]string{".", ".*", ""}).Draw(t, "listparam")
	} else if paramCommands[c.Cmd] && len(c.P.Locations) > 0 && rapid.Bool().Draw(t, "addrparam") {
		// list / weblist / disasm / peek also take an address: one of the profile's own, in hex or decimal
		a := c.P.Locations[rapid.IntRange(0, len(c.P.Locations)-1).Draw(t, "addrloc")].Address
		c.Param = rapid.SampledFrom([]string{fmt.Sprintf("0x%x", a), fmt.Sprint(a), fmt.Sprintf("0x%x", a), fmt.Sprintf("0x%x", a+1)}).Draw(t, "addrform")
	}
	return c
}

func checkCLI(c *cliCase, o *vk.Obs) []string {
	p := c.P.Build()
	p.DropFrames, p.KeepFrames = c.Drop, c.Keep
	o.LabelIf(c.Drop == "" && c.Keep != "", "keep_frames-without-drop_frames")
	o.LabelIf(c.Drop != "", "drop_frames")
	fl := map[string]string{"output": "out"}
	for _, a := range c.Assigns {
		fl[a.Name] = a.Value
		o.Label("opt:" + a.Name)
	}
	if v, ok := fl["symbolize"]; ok && v == "" {
		delete(fl, "symbolize")
	}
	pp.SetGranularity(fl, c.Gran)
	if paramCommands[c.Cmd] {
		if c.Param == "" {
			c.Param = "."
		}
		fl[c.Cmd] = c.Param
	} else {
		fl[c.Cmd] = "true"
	}
	o.Label("cmd:" + c.Cmd)
	req := pp.Req{Flags: fl, Args: []string{"src"}, Sources: map[string]*pp.Source{"src": {Prof: p}}}
	switch c.Multi {
	case 1:
		req.Args = []string{"src", "src2"}
		req.Sources["src2"] = &pp.Source{Prof: p.Copy()}
	case 2, 3:
		b := p.Copy()
		if c.ZeroBase {
			// a base whose first column (the count a mean report divides by) is zero throughout
			for _, s := range b.Sample {
				if len(s.Value) > 1 {
					s.Value[0] = 0
				}
			}
			fl["mean"] = "true"
			o.Label("mean-over-a-base-with-zero-counts")
		}
		req.Sources["b"] = &pp.Source{Prof: b}
		req.Lists = map[string][]string{[]string{"base", "diff_base"}[c.Multi-2]: {"b"}}
	}
	o.Label(fmt.Sprintf("sources:%d", c.Multi))
	res := pp.Run(req)
	o.NonTrivial = len(c.Assigns) > 0
	if res.Err != nil {
		o.Label("answered:error")
	} else {
		o.Label("answered:output")
	}
	if res.Panic != "" {
		return []string{fmt.Sprintf("pprof -%s with options %v panicked: %s", c.Cmd, c.Assigns, res.Panic)}
	}
	return nil
}

func TestPropCLI(t *testing.T) {
	vk.Main(t, vk.Spec[cliCase]{ID: "C09", Facet: "cli", Quick: 2500, Thorough: 15000, Gen: genCLI, Check: checkCLI, Journal: true, CaseTimeout: 90 * time.Second,
		Rule: "structurally valid profiles over a hostile alphabet (empty, NUL, invalid UTF-8, regex metacharacters, paths, URLs, 10 KiB names, ids near MaxUint64, addresses 0/max, 1- and 2-character build ids, unknown units) x up to 4 option assignments from a typed hostile pool (invalid regexps, overflowing numbers and tag ranges, NaN/Inf fractions, zero divisor, out-of-range sample_index, unknown units) x every command incl. those needing dot or a viewer x granularity; oracle: PProf returns (nil or an error) without panic, process death or hang; non-trivial = at least one hostile assignment reached the run"})
}

// ---- facet interactive: a session of hostile lines stays usable ----

type sessCase struct {
	P     *gen.Prof
	Lines []string
}

var noise = []string{"", " ", "top10", "top 5 >", "top -cum >", "top >", "=", "==", "focus=(", "focus", "nodecount=abc", "nodecount=", "divide_by=0", "granularity=zzz", "functions=0", "lines", "sort=zzz", "cum", "flat=1",
	"sample_index=99", "sample_index=-1", "sample_index=zzz", "sample_index=", "o", "options", "help", "help top", "help zzz", "help focus", ":", "//:", "x //: y", "focus=a //: b", "unit=zzz", "tagfocus=99999999999999999999",
	"tagignore=1:2:3", "peek", "peek (", "list", "list .", "disasm .", "weblist .", "web", "svg >x.svg", "png", "gv", "kcachegrind", "traces >t", "tags >t", "tags foo -bar", "top foo -bar -cum 3 >f", "top 99999999999", "top -",
	"tree -(", "top (", "top [", "zzz", "topzzz", "10", "-", ">", "> >", "top > >", "proto", "proto >p", "callgrind >c", "raw >r", "comments", "mean=1", "total_samples", "mean_samples", "samples", long[:5000], "top " + long[:3000],
	"focus=" + long[:3000], "trim=zz", "trim", "call_tree", "output=o1", "output=", "source_path=/nonexistent", "nodefraction=NaN", "edgefraction=Inf", "relative_percentages", "tagroot=k,(", "tagleaf=,", "show_from=*", "prune_from=(",
	"hide=\xff", "show=\x00", "normalize", "drop_negative=t", "compact_labels=0", "noinlines", "showcolumns=y", "intel_syntax"}

func genSess(t *rapid.T) *sessCase {
	c := &sessCase{P: gen.Profile(t, hostOpts)}
	n := rapid.IntRange(1, 8).Draw(t, "nlines")
	for i := 0; i < n; i++ {
		switch rapid.IntRange(0, 4).Draw(t, "lkind") {
		case 0, 1, 2:
			c.Lines = append(c.Lines, rapid.SampledFrom(noise).Draw(t, "noise"))
		case 3:
			c.Lines = append(c.Lines, rapid.SampledFrom(stringOptions).Draw(t, "opt")+"="+rapid.SampledFrom(hostileStrings).Draw(t, "val"))
		default:
			cmd := rapid.SampledFrom(commands).Draw(t, "cmd")
			line := cmd
			if paramCommands[cmd] {
				param := rapid.SampledFrom([]string{".", "main", "(", "zzz"}).Draw(t, "param")
				if len(c.P.Locations) > 0 && rapid.Bool().Draw(t, "addrparam") {
					// list / weblist / disasm / peek also take an address: one of the profile's own, in hex or decimal
					a := c.P.Locations[rapid.IntRange(0, len(c.P.Locations)-1).Draw(t, "addrloc")].Address
					param = rapid.SampledFrom([]string{fmt.Sprintf("0x%x", a), fmt.Sprint(a), fmt.Sprintf("%x", a), fmt.Sprintf("0x%x", a+1), "0x0", "18446744073709551615", "0xffffffffffffffffff"}).Draw(t, "addrform")
				}
				line += " " + param
			}
			if rapid.Bool().Draw(t, "args") {
				line += " " + rapid.SampledFrom([]string{"3", "-cum", "main", "-zz", "(", "-(", ">out1", "> out2", "0", "-1"}).Draw(t, "arg")
			}
			c.Lines = append(c.Lines, line)
		}
	}
	return c
}

// resetBlock puts every option back to a fixed value so that a probe answers the same in any session.
var resetBlock = []string{"call_tree=false", "relative_percentages=false", "unit=minimum", "compact_labels=true", "source_path=", "trim_path=", "intel_syntax=false", "mean=false",
	"divide_by=1", "normalize=false", "sort=flat", "tagroot=", "tagleaf=", "drop_negative=false", "nodecount=-1", "nodefraction=0.005", "edgefraction=0.001", "trim=true",
	"focus=", "ignore=", "prune_from=", "hide=", "show=", "show_from=", "tagfocus=", "tagignore=", "tagshow=", "taghide=", "noinlines=false", "showcolumns=false", "granularity=functions", "output=", "sample_index=0"}

func session(c *sessCase, lines []string) *pp.Res {
	all := append(append(append([]string{}, lines...), resetBlock...), "top >probe", "traces >probe2")
	return pp.Run(pp.Req{Args: []string{"src"}, Sources: map[string]*pp.Source{"src": {Prof: c.P.Build()}}, Lines: all})
}

func checkSess(c *sessCase, o *vk.Obs) []string {
	var e vk.Errs
	for _, l := range c.Lines {
		f := strings.Fields(l)
		if len(f) > 0 {
			o.Label("line:" + strings.SplitN(f[0], "=", 2)[0][:min(12, len(strings.SplitN(f[0], "=", 2)[0]))])
		}
	}
	o.NonTrivial = true
	noisy := session(c, c.Lines)
	if noisy.Panic != "" {
		return []string{fmt.Sprintf("interactive session %q panicked: %s", c.Lines, noisy.Panic)}
	}
	if noisy.Err != nil {
		e.Addf("interactive session ended with an error instead of reading on: %v (lines %.300q)", noisy.Err, c.Lines)
		return e
	}
	clean := session(c, nil)
	if clean.Panic != "" || clean.Err != nil {
		o.Label("pristine-session-fails")
		return e
	}
	for _, probe := range []string{"probe", "probe2"} {
		a, okA := noisy.W.Get(probe)
		b, okB := clean.W.Get(probe)
		if okA != okB || string(a) != string(b) {
			e.Addf("after the lines %.400q the session no longer answers %q like a fresh session:\n--- fresh\n%.600s\n--- after\n%.600s", c.Lines, probe, b, a)
		}
	}
	return e
}

func TestPropInteractive(t *testing.T) {
	vk.Main(t, vk.Spec[sessCase]{ID: "C09", Facet: "interactive", Quick: 1200, Thorough: 8000, Gen: genSess, Check: checkSess, Journal: true, CaseTimeout: 120 * time.Second,
		Rule: "interactive sessions of 1..8 lines drawn from a command grammar (every command with arguments, redirections, numbers, -cum, focus/ignore arguments), option assignments with hostile values, and noise (top10, 'top >', '=', 'focus=(', stray '//:', 5 KiB lines, macros, unknown words); oracle: no panic / process death / hang, the session keeps reading, and after a block that resets every option a probe (top, traces) is answered byte-identically to a fresh session; every session is non-trivial"})
}

// ---- facet web: hostile query strings ----

type webCase struct {
	P       *gen.Prof
	Path    string
	Params  []assign
	RawTail string
}

var urlParams = []string{"f", "i", "h", "s", "sf", "prunefrom", "tf", "ti", "ts", "th", "n", "nf", "ef", "trim", "calltree", "rel", "unit", "compact", "intel", "mean", "si", "norm", "sort", "g", "noinlines", "showcolumns", "dropneg", "config", "zzz"}
var endpoints = []string{"/", "/top", "/peek", "/flamegraph", "/source", "/disasm", "/download", "/flamegraph2", "/saveconfig", "/deleteconfig"}

func genWeb(t *rapid.T) *webCase {
	c := &webCase{P: gen.Profile(t, hostOpts), Path: rapid.SampledFrom(endpoints).Draw(t, "path")}
	n := rapid.IntRange(0, 4).Draw(t, "nparams")
	for i := 0; i < n; i++ {
		c.Params = append(c.Params, assign{rapid.SampledFrom(urlParams).Draw(t, "param"), rapid.SampledFrom(append(hostileStrings, "t", "f", "cum", "lines", "zz", "5")).Draw(t, "pval")})
	}
	c.RawTail = rapid.SampledFrom([]string{"", "&", "&&", "&=", "&%zz", "&a=%ff", "&f=%00", ";", "&f=a&f=b"}).Draw(t, "tail")
	return c
}

func esc(s string) string {
	var b strings.Builder
	for i := 0; i < len(s); i++ {
		ch := s[i]
		if ch >= 'a' && ch <= 'z' || ch >= 'A' && ch <= 'Z' || ch >= '0' && ch <= '9' {
			b.WriteByte(ch)
		} else {
			fmt.Fprintf(&b, "%%%02X", ch)
		}
	}
	return b.String()
}

func checkWeb(c *webCase, o *vk.Obs) []string {
	var e vk.Errs
	w, err := pp.StartWeb(pp.Req{Args: []string{"src"}, Sources: map[string]*pp.Source{"src": {Prof: c.P.Build()}}})
	if err != nil {
		o.Label("web-did-not-start")
		return nil
	}
	defer w.Close()
	_, pristine, _, pan := w.Get("/top")
	if pan != "" {
		return []string{"/top panicked: " + pan}
	}
	var q []string
	for _, a := range c.Params {
		v := a.Value
		if len(v) > 2000 {
			v = v[:2000]
		}
		q = append(q, a.Name+"="+esc(v))
	}
	target := c.Path + "?" + strings.Join(q, "&") + c.RawTail
	o.Label("endpoint:" + c.Path)
	o.NonTrivial = len(c.Params) > 0
	code, body, _, pan := w.Get(target)
	if pan != "" {
		return []string{fmt.Sprintf("GET %.300s panicked: %s", target, pan)}
	}
	o.Label(fmt.Sprintf("status:%d", code))
	switch code {
	case 200, 400, 501, 301, 307:
	default:
		e.Addf("GET %.300s answered HTTP %d: %.200s", target, code, body)
	}
	_, after, _, pan := w.Get("/top")
	if pan != "" {
		return []string{"/top after the hostile request panicked: " + pan}
	}
	if c.Path != "/saveconfig" && c.Path != "/deleteconfig" && after != pristine {
		e.Addf("after GET %.300s a plain /top no longer returns the pristine page", target)
	}
	return e
}

func TestPropWeb(t *testing.T) {
	vk.Main(t, vk.Spec[webCase]{ID: "C09", Facet: "web", Quick: 1200, Thorough: 8000, Gen: genWeb, Check: checkWeb, Journal: true, CaseTimeout: 120 * time.Second,
		Rule: "hostile query strings (every URL parameter x the hostile value pool, repeated and malformed parameters, bad percent escapes) against every web UI endpoint on a hostile profile; oracle: no handler panic, status in {200, 400, 501 (graphviz missing), 3xx}, and a plain /top afterwards returns the pristine page; non-trivial = at least one parameter"})
}

// farLines gives the first function a file name and two sampled lines that are very far apart.
func farLines(p *gen.Prof) {
	if len(p.Functions) == 0 {
		return
	}
	p.Functions[0].Name, p.Functions[0].Filename = "far", "far.go"
	n := 0
	for i := range p.Locations {
		for j := range p.Locations[i].Lines {
			if p.Locations[i].Lines[j].Fn == 0 {
				p.Locations[i].Lines[j].Line = []int64{7, 1 << 40, 1 << 50}[n%3]
				n++
			}
		}
	}
	if n < 2 && len(p.Locations) >= 2 {
		p.Locations[0].Lines = []gen.Line{{Fn: 0, Line: 7}}
		p.Locations[1].Lines = []gen.Line{{Fn: 0, Line: 1 << 40}}
	}
}
