package c20

import (
	"bytes"
	"fmt"
	"os"
	"os/exec"
	"path/filepath"
	"regexp"
	"strconv"
	"runtime"
	"sort"
	"strings"
	"sync"
	"testing"
	"time"

	"github.com/google/pprof/internal/binutils"
	"github.com/google/pprof/internal/driver"
	"github.com/google/pprof/internal/plugin"
	"github.com/google/pprof/profile"
	"github.com/google/pprof/xverif/gen"
	"github.com/google/pprof/xverif/pp"
	"github.com/google/pprof/xverif/tlsfix"
	"github.com/google/pprof/xverif/vk"
	"pgregory.net/rapid"
)

func scratch(sub string) string {
	d := filepath.Join(os.Getenv("VERIF_SCRATCH"), "c20", sub)
	os.MkdirAll(d, 0o755)
	return d
}

// ---- facet profile: Write / WriteUncompressed / Copy on one shared profile ----

type profCase struct {
	P   *gen.Prof
	Ops []int // per goroutine: 0 Write, 1 WriteUncompressed, 2 Copy, 3 String
	Jit []int
}

var profOpts = gen.Opts{Alpha: gen.Plain, MaxSamples: 8, MaxDepth: 5, MaxLines: 3, MinTypes: 1, MaxTypes: 3, AnyIDs: true, Unused: true, Labels: true, NumLabels: true,
	EmptyStacks: true, NoMapping: true, Unsym: true, Header: true, Columns: true}

func genProf(t *rapid.T) *profCase {
	return &profCase{P: gen.Profile(t, profOpts), Ops: rapid.SliceOfN(rapid.IntRange(0, 3), 2, 12).Draw(t, "ops"), Jit: rapid.SliceOfN(rapid.IntRange(0, 3), 12, 12).Draw(t, "jitter")}
}

func checkProf(c *profCase, o *vk.Obs) []string {
	var e vk.Errs
	p := c.P.Build()
	var raw bytes.Buffer
	p.WriteUncompressed(&raw)
	want := raw.String()
	var mu sync.Mutex
	var wg sync.WaitGroup
	start := make(chan struct{})
	for i, op := range c.Ops {
		wg.Add(1)
		go func(i, op int) {
			defer wg.Done()
			<-start
			for k := 0; k < c.Jit[i%len(c.Jit)]; k++ {
				runtime.Gosched()
			}
			var got string
			switch op {
			case 0:
				var b bytes.Buffer
				p.Write(&b)
				q, err := profile.ParseData(b.Bytes())
				if err != nil {
					got = "unparsable: " + err.Error()
				} else {
					var r bytes.Buffer
					q.WriteUncompressed(&r)
					got = r.String()
				}
			case 1:
				var b bytes.Buffer
				p.WriteUncompressed(&b)
				got = b.String()
			case 2:
				var b bytes.Buffer
				p.Copy().WriteUncompressed(&b)
				got = b.String()
			default:
				_ = p.String()
				return
			}
			if got != want {
				mu.Lock()
				e.Addf("goroutine %d (op %d): concurrent serialisation of one profile gives a result different from the sequential one (%d vs %d bytes)", i, op, len(got), len(want))
				mu.Unlock()
			}
		}(i, op)
	}
	close(start)
	wg.Wait()
	o.NonTrivial = len(p.Sample) > 0
	return e
}

func TestPropProfile(t *testing.T) {
	vk.Main(t, vk.Spec[profCase]{ID: "C20", Facet: "profile", Quick: 500, Thorough: 3000, Gen: genProf, Check: checkProf, Journal: true, CaseTimeout: 60 * time.Second,
		Rule: "2..12 goroutines released together doing Write / WriteUncompressed / Copy / String on one shared generated profile, with drawn scheduling jitter, under the race detector; oracle: no data race, every result equals the sequential serialisation; non-trivial = the profile has samples"})
}

// ---- facet web: any mix of requests, options read while being set ----

type webCase struct {
	P    *gen.Prof
	Reqs []string
	Sets []int
}

// assignments that leave the options as the harness pinned them: current values, and rejected ones
// (unknown names, unparsable values, a radio-group choice given as false) which must change nothing
var setPool = [][2]string{{"nodecount", "-1"}, {"trim", "true"}, {"focus", ""}, {"granularity", "functions"}, {"sort", "flat"}, {"unit", "minimum"}, {"call_tree", "false"},
	{"functions", "true"}, {"flat", "true"}, {"lines", "false"}, {"cum", "0"}, {"addresses", "no"}, {"nosuchoption", "1"}, {"nodecount", "many"}, {"nodefraction", "x"}, {"trim", "maybe"}, {"granularity", "nosuch"}}

func genWeb(t *rapid.T) *webCase {
	o := profOpts
	o.LosslessU = true
	c := &webCase{P: gen.Profile(t, o)}
	n := rapid.IntRange(3, 10).Draw(t, "nreq")
	for i := 0; i < n; i++ {
		c.Reqs = append(c.Reqs, rapid.SampledFrom([]string{"/top", "/top?f=main", "/peek?f=.", "/flamegraph", "/source?f=.", "/download", "/disasm?f=.", "/top?g=lines&sort=cum", "/flamegraph?g=files", "/?f=x"}).Draw(t, "req"))
	}
	c.Sets = rapid.SliceOfN(rapid.IntRange(0, len(setPool)-1), 1, 6).Draw(t, "sets")
	return c
}

func checkWeb(c *webCase, o *vk.Obs) []string {
	var e vk.Errs
	p := c.P.Build().Copy()
	w, err := pp.StartWeb(pp.Req{Args: []string{"src"}, Sources: map[string]*pp.Source{"src": {Prof: p}}})
	if err != nil {
		return nil
	}
	defer w.Close()
	ref := map[string]string{}
	for _, r := range c.Reqs {
		if _, ok := ref[r]; !ok {
			code, body, _, pan := w.Get(r)
			if pan != "" {
				return []string{"GET " + r + " panicked: " + pan}
			}
			if strings.HasPrefix(r, "/download") {
				body = fmt.Sprint(len(body) > 0)
			}
			ref[r] = fmt.Sprint(code) + "\n" + body
		}
	}
	var wg sync.WaitGroup
	var mu sync.Mutex
	start := make(chan struct{})
	for _, r := range c.Reqs {
		wg.Add(1)
		go func(r string) {
			defer wg.Done()
			<-start
			code, body, _, pan := w.Get(r)
			if strings.HasPrefix(r, "/download") {
				body = fmt.Sprint(len(body) > 0)
			}
			mu.Lock()
			defer mu.Unlock()
			if pan != "" {
				e.Addf("concurrent GET %s panicked: %s", r, pan)
			} else if got := fmt.Sprint(code) + "\n" + body; got != ref[r] {
				e.Addf("GET %s served concurrently differs from the same request served alone", r)
			}
		}(r)
	}
	// options are set (to the value they already have) while requests read them
	for _, s := range c.Sets {
		wg.Add(1)
		go func(s int) {
			defer wg.Done()
			<-start
			driver.SetVariableDefault(setPool[s][0], setPool[s][1])
		}(s)
	}
	close(start)
	done := make(chan struct{})
	go func() { wg.Wait(); close(done) }()
	select {
	case <-done:
	case <-time.After(60 * time.Second):
		return []string{"deadlock: concurrent web requests did not finish within 60s"}
	}
	o.NonTrivial = len(ref) >= 2
	return e
}

func TestPropWeb(t *testing.T) {
	vk.Main(t, vk.Spec[webCase]{ID: "C20", Facet: "web", Quick: 250, Thorough: 1500, Gen: genWeb, Check: checkWeb, Journal: true, CaseTimeout: 120 * time.Second,
		Rule: "3..10 web UI requests over all endpoints released together with 1..6 concurrent SetVariableDefault calls (options read while being set - to their current values, or with rejected assignments that must change nothing and must not wedge the option store), under the race detector; oracle: no data race, no deadlock, every response equals the response to the same request served alone; non-trivial = at least two distinct requests"})
}

// ---- facet tools: one ObjFile, many concurrent SourceLine calls; tool configuration changed meanwhile ----

type toolCase struct {
	Tool    int // 0 addr2line, 1 llvm-symbolizer, 2 llvm-symbolizer that dies after 3 answers, 3 nm only (fast), 4 nm only, and nm fails
	N       int
	Addrs   []uint64
	Reconf  int // number of concurrent SetTools/SetFastSymbolization calls on the same Binutils
	OpenToo bool
}

func genTool(t *rapid.T) *toolCase {
	return &toolCase{Tool: rapid.IntRange(0, 5).Draw(t, "tool"), N: rapid.IntRange(2, 10).Draw(t, "n"), Addrs: rapid.SliceOfN(rapid.Uint64Range(0, 0xfff), 10, 10).Draw(t, "addrs"),
		Reconf: rapid.IntRange(0, 3).Draw(t, "reconf"), OpenToo: rapid.Bool().Draw(t, "opentoo")}
}

var toolOnce sync.Once
var toolDirs [6]string
var elfPath string

func setupTools() {
	base := scratch("tools")
	// binutils falls back to $PATH for a tool that is not in the configured directory: keep the real
	// llvm-symbolizer / addr2line / nm of this machine out of the experiment
	os.MkdirAll(filepath.Join(base, "nopath"), 0o755)
	os.Setenv("PATH", filepath.Join(base, "nopath"))
	write := func(dir, name, body string) {
		os.MkdirAll(dir, 0o755)
		os.WriteFile(filepath.Join(dir, name), []byte(body), 0o755)
	}
	a2l := "#!/bin/sh\nwhile read a; do echo \"0x$a\"; echo \"fn_$a\"; echo \"file.c:1\"; done\n"
	llvm := "#!/bin/sh\nwhile read t f a; do printf '{\"Address\":\"%s\",\"ModuleName\":\"m\",\"Symbol\":[{\"Line\":1,\"Column\":0,\"FunctionName\":\"fn_%s\",\"FileName\":\"f.c\",\"StartLine\":0}]}\\n' \"$a\" \"$a\"; done\n"
	dying := "#!/bin/sh\nn=0\nwhile read t f a; do printf '{\"Address\":\"%s\",\"ModuleName\":\"m\",\"Symbol\":[{\"Line\":1,\"Column\":0,\"FunctionName\":\"fn_%s\",\"FileName\":\"f.c\",\"StartLine\":0}]}\\n' \"$a\" \"$a\"; n=$((n+1)); if [ $n -ge 3 ]; then exit 0; fi; done\n"
	nm := "#!/bin/sh\necho 'sym T 0 1000'\n"
	for i := range toolDirs {
		toolDirs[i] = filepath.Join(base, fmt.Sprint(i))
		write(toolDirs[i], "nm", nm)
	}
	write(toolDirs[4], "nm", "#!/bin/sh\nexit 1\n")
	// objdump is probed by SetTools ("objdump --version"); a slow one widens the window of an update
	write(toolDirs[5], "objdump", "#!/bin/sh\n/bin/sleep 0.03\necho 'GNU objdump (GNU Binutils) 2.40'\n")
	write(toolDirs[0], "addr2line", a2l)
	write(toolDirs[1], "llvm-symbolizer", llvm)
	write(toolDirs[2], "llvm-symbolizer", dying)
	// an addr2line that prints a warning line before the answer for some addresses (a reply pprof cannot use)
	write(toolDirs[5], "addr2line", "#!/bin/sh\nwhile read a; do case \"$a\" in *7|*3) echo 'addr2line: DWARF error: mangled line number section';; esac; echo \"0x$a\"; echo \"fn_$a\"; echo \"file.c:1\"; done\n")
	// a minimal PIE: ELF header + one executable PT_LOAD
	b := make([]byte, 64+56)
	copy(b, []byte{0x7f, 'E', 'L', 'F', 2, 1, 1, 0})
	le := func(off int, v uint64, n int) {
		for i := 0; i < n; i++ {
			b[off+i] = byte(v >> (8 * i))
		}
	}
	le(16, 3, 2)
	le(18, 62, 2)
	le(20, 1, 4)
	le(32, 64, 8)
	le(52, 64, 2)
	le(54, 56, 2)
	le(56, 1, 2)
	le(58, 64, 2)
	le(64, 1, 4)
	le(68, 5, 4)
	le(64+32, 0x1000, 8)
	le(64+40, 0x1000, 8)
	le(64+48, 0x1000, 8)
	elfPath = filepath.Join(base, "bin.elf")
	os.WriteFile(elfPath, b, 0o644)
}

func checkTool(c *toolCase, o *vk.Obs) []string {
	var e vk.Errs
	toolOnce.Do(setupTools)
	bu := &binutils.Binutils{}
	cfg := "nm:" + toolDirs[c.Tool] + ",addr2line:" + toolDirs[c.Tool] + ",llvm-symbolizer:" + toolDirs[c.Tool] + ",objdump:/nonexistent"
	bu.SetTools(cfg)
	if c.Tool == 3 || c.Tool == 4 {
		bu.SetFastSymbolization(true)
	}
	const bias = 0x555555554000
	of, err := bu.Open(elfPath, bias, bias+0x1000, 0, "")
	if err != nil {
		return []string{"Open: " + err.Error()}
	}
	o.Label([]string{"addr2line", "llvm-symbolizer", "llvm-symbolizer-dies", "nm", "nm-fails", "addr2line-garbled-replies"}[c.Tool])
	o.NonTrivial = true
	var wg sync.WaitGroup
	var mu sync.Mutex
	start := make(chan struct{})
	answered, failed := 0, 0
	for i := 0; i < c.N; i++ {
		wg.Add(1)
		go func(i int) {
			defer wg.Done()
			<-start
			for k := 0; k < 3; k++ {
				a := c.Addrs[(i+k)%len(c.Addrs)]
				frames, err := of.SourceLine(bias + a)
				mu.Lock()
				switch {
				case err != nil:
					failed++
				case c.Tool == 5:
					// after a reply it cannot use the exchange is out of step: only "every call returns" is asked
					answered++
				case c.Tool == 3:
					if len(frames) != 1 || frames[0].Func != "sym" {
						e.Addf("nm lookup of %#x returned %+v", a, frames)
					}
					answered++
				default:
					want := fmt.Sprintf("fn_%x", a)
					if c.Tool != 0 {
						want = fmt.Sprintf("fn_0x%x", a)
					}
					if len(frames) == 0 {
						failed++
					} else if frames[0].Func != want {
						e.Addf("SourceLine(%#x) was answered with %q: the exchange with the tool was torn (another goroutine's answer)", a, frames[0].Func)
					} else {
						answered++
					}
				}
				mu.Unlock()
			}
		}(i)
	}
	for i := 0; i < c.Reconf; i++ {
		wg.Add(1)
		go func(i int) {
			defer wg.Done()
			<-start
			if i%2 == 0 {
				bu.SetTools(cfg)
			} else {
				bu.SetFastSymbolization(c.Tool == 3 || c.Tool == 4)
			}
			if c.OpenToo {
				if f, err := bu.Open(elfPath, bias, bias+0x1000, 0, ""); err == nil {
					f.SourceLine(bias + 1)
					f.Close()
				}
			}
		}(i)
	}
	close(start)
	done := make(chan struct{})
	go func() { wg.Wait(); close(done) }()
	select {
	case <-done:
	case <-time.After(30 * time.Second):
		return []string{fmt.Sprintf("deadlock: %d concurrent SourceLine calls on one object file did not return within 30s (tool %d)", c.N, c.Tool)}
	}
	of.Close()
	if c.Tool == 4 && answered > 0 {
		e.Addf("%d lookups were answered although nm fails", answered)
	}
	if c.Tool != 2 && c.Tool != 4 && c.Tool != 5 && failed > 0 {
		e.Addf("%d of %d lookups failed although the tool answers every request", failed, answered+failed)
	}
	return e
}

func TestPropTools(t *testing.T) {
	vk.Main(t, vk.Spec[toolCase]{ID: "C20", Facet: "tools", Quick: 250, Thorough: 1500, Gen: genTool, Check: checkTool, Journal: true, CaseTimeout: 90 * time.Second,
		Rule: "2..10 goroutines x 3 SourceLine calls on ONE object file opened through binutils, backed by fake addr2line / llvm-symbolizer / nm scripts that echo the queried address (one variant of the tool dies after three answers, one nm fails outright, one addr2line puts a warning line in front of some answers), while other goroutines call SetTools / SetFastSymbolization / Open on the same Binutils; under the race detector; oracle: no data race, no deadlock (30 s), every answer carries the address that was asked; every case is non-trivial"})
}

// ---- facet config: tool options set from several goroutines at once ----

type cfgCase struct {
	Ops    []int // 0 SetTools(A), 1 SetTools(B), 2 fast=true, 3 fast=false
	Reads  int
	Jitter []int
}

func genCfg(t *rapid.T) *cfgCase {
	return &cfgCase{Ops: rapid.SliceOfN(rapid.IntRange(0, 3), 2, 4).Draw(t, "ops"), Reads: rapid.IntRange(0, 4).Draw(t, "reads"), Jitter: rapid.SliceOfN(rapid.IntRange(0, 3), 8, 8).Draw(t, "jitter")}
}

func checkCfg(c *cfgCase, o *vk.Obs) []string {
	var e vk.Errs
	toolOnce.Do(setupTools)
	cfgOf := func(i int) string {
		return "nm:" + toolDirs[3] + ",addr2line:" + toolDirs[i] + ",llvm-symbolizer:/nonexistent,objdump:" + toolDirs[5]
	}
	apply := func(bu *binutils.Binutils, op int) {
		switch op {
		case 0:
			bu.SetTools(cfgOf(0))
		case 1:
			bu.SetTools(cfgOf(1))
		case 2:
			bu.SetFastSymbolization(true)
		default:
			bu.SetFastSymbolization(false)
		}
	}
	// what the options are after the same calls one at a time: the tools of the last SetTools and the last
	// fast flag in SOME order of the calls - i.e. any tools value that was set and any fast value that was set
	tools, fasts := map[string]bool{}, map[string]bool{}
	for _, op := range c.Ops {
		ref := &binutils.Binutils{}
		ref.SetTools(cfgOf(0))
		ref.SetFastSymbolization(false)
		apply(ref, op)
		st := ref.String()
		i := strings.LastIndex(st, "fast=")
		if op < 2 {
			tools[st[:i]] = true
		} else {
			fasts[st[i:]] = true
		}
	}
	base := &binutils.Binutils{}
	base.SetTools(cfgOf(0))
	base.SetFastSymbolization(false)
	bst := base.String()
	bi := strings.LastIndex(bst, "fast=")
	if len(tools) == 0 {
		tools[bst[:bi]] = true
	}
	if len(fasts) == 0 {
		fasts[bst[bi:]] = true
	}
	bu := &binutils.Binutils{}
	bu.SetTools(cfgOf(0))
	bu.SetFastSymbolization(false)
	var wg sync.WaitGroup
	start := make(chan struct{})
	for i, op := range c.Ops {
		wg.Add(1)
		go func(i, op int) {
			defer wg.Done()
			<-start
			for k := 0; k < c.Jitter[i%len(c.Jitter)]; k++ {
				runtime.Gosched()
			}
			apply(bu, op)
		}(i, op)
	}
	for i := 0; i < c.Reads; i++ {
		wg.Add(1)
		go func() {
			defer wg.Done()
			<-start
			_ = bu.String()
			if f, err := bu.Open(elfPath, 0x555555554000, 0x555555555000, 0, ""); err == nil {
				f.Close()
			}
		}()
	}
	close(start)
	done := make(chan struct{})
	go func() { wg.Wait(); close(done) }()
	select {
	case <-done:
	case <-time.After(60 * time.Second):
		return []string{"deadlock: concurrent SetTools / SetFastSymbolization did not return within 60s"}
	}
	st := bu.String()
	i := strings.LastIndex(st, "fast=")
	kinds := map[bool]bool{}
	for _, op := range c.Ops {
		kinds[op < 2] = true
	}
	o.NonTrivial = len(kinds) == 2
	if !tools[st[:i]] || !fasts[st[i:]] {
		e.Addf("after concurrent option updates %v the tool options are %q: not the outcome of any order of those calls (an update was lost); possible tools %v, possible fast %v", c.Ops, st, keysOf(tools), keysOf(fasts))
	}
	return e
}

func keysOf(m map[string]bool) []string {
	var out []string
	for k := range m {
		out = append(out, k)
	}
	sort.Strings(out)
	return out
}

func TestPropConfig(t *testing.T) {
	vk.Main(t, vk.Spec[cfgCase]{ID: "C20", Facet: "config", Quick: 60, Thorough: 400, Gen: genCfg, Check: checkCfg, Journal: true, CaseTimeout: 120 * time.Second,
		Rule: "2..4 calls of SetTools (two tool directories; the objdump probe takes 30 ms) and SetFastSymbolization (true/false) on one Binutils released together, with 0..4 concurrent readers (String, Open); under the race detector; oracle: no data race, no deadlock, and the final options are those of some sequential order of the calls - the tools of one of the SetTools calls AND the flag of one of the SetFastSymbolization calls (no update is lost); non-trivial = both kinds of setter take part"})
}

// ---- facet fetch: parallel fetch through one shared object tool ----

type fetchCase struct {
	N     int
	Delay []int
}

func genFetch(t *rapid.T) *fetchCase {
	return &fetchCase{N: rapid.IntRange(2, 12).Draw(t, "n"), Delay: rapid.SliceOfN(rapid.IntRange(0, 3), 12, 12).Draw(t, "delay")}
}

func checkFetch(c *fetchCase, o *vk.Obs) []string {
	var e vk.Errs
	toolOnce.Do(setupTools)
	bu := &binutils.Binutils{}
	// the driver configures a *binutils.Binutils from the -tools flag
	tools := "nm:" + toolDirs[3] + ",addr2line:/nonexistent,llvm-symbolizer:/nonexistent,objdump:/nonexistent"
	srcs := map[string]*pp.Source{}
	var args []string
	for i := 0; i < c.N; i++ {
		m := &profile.Mapping{ID: 1, Start: 0x555555554000, Limit: 0x555555555000, File: elfPath}
		l := &profile.Location{ID: 1, Mapping: m, Address: 0x555555554010 + uint64(i)}
		p := &profile.Profile{SampleType: []*profile.ValueType{{Type: "samples", Unit: "count"}}, PeriodType: &profile.ValueType{Type: "cpu", Unit: "nanoseconds"}, Period: 1,
			Mapping: []*profile.Mapping{m}, Location: []*profile.Location{l},
			Sample: []*profile.Sample{{Location: []*profile.Location{l}, Value: []int64{int64(1000 + i)}}}}
		name := fmt.Sprintf("s%d", i)
		d := time.Duration(c.Delay[i%len(c.Delay)]) * 200 * time.Microsecond
		srcs[name] = &pp.Source{Prof: p, Gate: func(string) { time.Sleep(d) }}
		args = append(args, name)
	}
	res := pp.Run(pp.Req{Flags: map[string]string{"traces": "true", "output": "out", "symbolize": "fastlocal", "tools": tools}, Args: args, Sources: srcs, Obj: bu, DefaultSym: true})
	if res.Panic != "" {
		return []string{"pprof panicked: " + res.Panic}
	}
	if res.Err != nil {
		e.Addf("parallel fetch of %d sources failed: %v", c.N, res.Err)
		return e
	}
	out := res.Out("out")
	for i := 0; i < c.N; i++ {
		if !strings.Contains(out, fmt.Sprintf("%d   sym", 1000+i)) {
			e.Addf("source %d (value %d) is missing from the merged report or was not symbolized through the shared object tool:\n%.600s\nmessages: %q", i, 1000+i, out, res.UI.Errs)
			break
		}
	}
	o.NonTrivial = true
	return e
}

func TestPropFetch(t *testing.T) {
	vk.Main(t, vk.Spec[fetchCase]{ID: "C20", Facet: "fetch", Quick: 150, Thorough: 800, Gen: genFetch, Check: checkFetch, Journal: true, CaseTimeout: 90 * time.Second,
		Rule: "2..12 sources fetched in parallel (drawn delays), every fetch goroutine opening binaries through ONE shared binutils object tool, then local symbolization with a fake nm; under the race detector; oracle: no data race, every source present in the merged report, symbols attached; every case is non-trivial"})
}

// ---- facet messages: pprof's own message printer under parallel fetch ----

type msgCase struct{ N, GoMaxProcs int }

func genMsg(t *rapid.T) *msgCase {
	return &msgCase{N: rapid.SampledFrom([]int{8, 48, 128, 200}).Draw(t, "n"), GoMaxProcs: rapid.SampledFrom([]int{2, 8, 16}).Draw(t, "gomaxprocs")}
}

var msgLine = regexp.MustCompile(`^(Fetching profile over HTTP from http://remote\.example/profile-number-(\d{3})-abcdefghijklmnopqrstuvwxyz0123456789ABCDEFGHIJKLMNOPQRSTUVWXYZ|Saved profile in .*|Could not save profile: .*|Generating report in out|Fetched \d+ source profiles out of \d+|pprof: .*|)$`)

func checkMsg(c *msgCase, o *vk.Obs) []string {
	var e vk.Errs
	helper := filepath.Join(os.Getenv("VERIF_BUILD"), "xhelper20")
	if _, err := os.Stat(helper); err != nil {
		o.Inconcl = append(o.Inconcl, "helper binary missing")
		return nil
	}
	cmd := exec.Command(helper, "messages", fmt.Sprint(c.N))
	cmd.Env = append(os.Environ(), fmt.Sprintf("GOMAXPROCS=%d", c.GoMaxProcs))
	var stderr bytes.Buffer
	cmd.Stderr = &stderr
	cmd.Run()
	seen := map[string]int{}
	for _, l := range strings.Split(strings.TrimRight(stderr.String(), "\n"), "\n") {
		m := msgLine.FindStringSubmatch(l)
		switch {
		case m == nil:
			e.Addf("%d sources fetched in parallel: stderr has a line that is no message of pprof (torn or merged): %.300q", c.N, l)
		case m[2] != "":
			seen[m[2]]++
		}
		if len(e) > 3 {
			break
		}
	}
	if len(e) == 0 && len(seen) != c.N {
		e.Addf("%d sources were fetched, stderr carries whole announcements for %d of them", c.N, len(seen))
	}
	o.NonTrivial = true
	return e
}

func TestPropMessages(t *testing.T) {
	vk.Main(t, vk.Spec[msgCase]{ID: "C20", Facet: "messages", Quick: 100, Thorough: 400, Gen: genMsg, Check: checkMsg, CaseTimeout: 120 * time.Second,
		Rule: "a helper process fetches 8..200 remote sources in parallel, each fetch goroutine announcing its source, with pprof's own message printer (no UI plug-in: messages go to stderr), at GOMAXPROCS 2/8/16; oracle: every stderr line is one whole message (one announcement per source, plus the summary lines) - no torn or merged lines; every case is non-trivial"})
}

// ---- facet tempfiles: several processes and goroutines create saved profiles in one directory ----

type tmpCase struct {
	Procs, PerProc int
}

func genTmp(t *rapid.T) *tmpCase {
	return &tmpCase{Procs: rapid.IntRange(2, 6).Draw(t, "procs"), PerProc: rapid.IntRange(1, 4).Draw(t, "perproc")}
}

func checkTmp(c *tmpCase, o *vk.Obs) []string {
	var e vk.Errs
	helper := filepath.Join(os.Getenv("VERIF_BUILD"), "xhelper20")
	if _, err := os.Stat(helper); err != nil {
		o.Inconcl = append(o.Inconcl, "helper binary missing")
		return nil
	}
	dir := scratch("tmpfiles")
	os.RemoveAll(dir)
	os.MkdirAll(dir, 0o755)
	var wg sync.WaitGroup
	var mu sync.Mutex
	for i := 0; i < c.Procs; i++ {
		wg.Add(1)
		go func(i int) {
			defer wg.Done()
			cmd := exec.Command(helper, "tempfiles", fmt.Sprint(c.PerProc), fmt.Sprint(i))
			cmd.Env = append(os.Environ(), "PPROF_TMPDIR="+dir)
			if out, err := cmd.CombinedOutput(); err != nil {
				mu.Lock()
				e.Addf("helper %d failed: %v %.300s", i, err, out)
				mu.Unlock()
			}
		}(i)
	}
	wg.Wait()
	ents, _ := os.ReadDir(dir)
	want := c.Procs * c.PerProc
	seen := map[string]bool{}
	for _, en := range ents {
		b, err := os.ReadFile(filepath.Join(dir, en.Name()))
		if err != nil {
			continue
		}
		p, err := profile.ParseData(b)
		if err != nil {
			e.Addf("saved profile %s is damaged: %v (%d bytes)", en.Name(), err, len(b))
			continue
		}
		if len(p.Comments) != 1 || seen[p.Comments[0]] {
			e.Addf("saved profile %s does not hold exactly one writer's data: comments %v", en.Name(), p.Comments)
			continue
		}
		seen[p.Comments[0]] = true
	}
	if len(seen) != want {
		e.Addf("%d processes x %d concurrent fetches saved %d distinct intact profiles in %s, expected %d (files: %d): a file was overwritten or a name reused", c.Procs, c.PerProc, len(seen), dir, want, len(ents))
	}
	o.NonTrivial = true
	return e
}

func TestPropTempFiles(t *testing.T) {
	vk.Main(t, vk.Spec[tmpCase]{ID: "C20", Facet: "tempfiles", Quick: 25, Thorough: 150, Gen: genTmp, Check: checkTmp, CaseTimeout: 120 * time.Second,
		Rule: "2..6 helper processes, each fetching 1..4 remote sources concurrently, all saving the fetched profiles under one PPROF_TMPDIR with the same name prefix at the same time; oracle: as many distinct, intact (parsable, single-writer) files as fetches - no name reused, nothing overwritten; every case is non-trivial"})
}

var _ plugin.ObjTool

// ---- facet tls: per-source certificate verification under parallel fetch ----

func genTLS(t *rapid.T) *tlsfix.Case {
	n := rapid.SampledFrom([]int{2, 3, 8, 16}).Draw(t, "n")
	c := &tlsfix.Case{N: n, Insecure: rapid.IntRange(0, n-1).Draw(t, "insecure"), SlowMs: rapid.SampledFrom([]int{0, 20, 50}).Draw(t, "slow")}
	c.Secure = (c.Insecure + 1 + rapid.IntRange(0, n-2).Draw(t, "secureoff")) % n
	return c
}

func TestPropTLS(t *testing.T) {
	vk.Main(t, vk.Spec[tlsfix.Case]{ID: "C20", Facet: "tls", Quick: 40, Thorough: 300, Gen: genTLS, Check: tlsfix.Check, CaseTimeout: 120 * time.Second,
		Rule: "2..16 sources fetched in parallel over loopback HTTP with pprof's own transport: one https+insecure:// (its answer held back 0/20/50 ms so that it is in flight while the others are fetched), one https:// to the same self-signed server, the rest plain http; under the race detector; oracle: no data race, the insecure source is fetched, the https:// source is never fetched - verification is per source, not a state of the shared transport; every case is non-trivial"})
}

// ---- facet options: the interactive option listing (a read) while option defaults are being set ----

type optCase struct{ Setters, Mode, GoMaxProcs int }

func genOpt(t *rapid.T) *optCase {
	return &optCase{Setters: rapid.IntRange(1, 3).Draw(t, "setters"), Mode: rapid.IntRange(0, 2).Draw(t, "mode"), GoMaxProcs: rapid.SampledFrom([]int{2, 4, 16}).Draw(t, "gomaxprocs")}
}

var optLine = regexp.MustCompile(`(?m)^  (granularity|nodecount|focus) +=\s+(\S*)\s*(//: .*)?$`)

func checkOpt(c *optCase, o *vk.Obs) []string {
	var e vk.Errs
	helper := filepath.Join(os.Getenv("VERIF_BUILD"), "xhelper20-race")
	if _, err := os.Stat(helper); err != nil {
		o.Inconcl = append(o.Inconcl, "race-enabled helper binary missing")
		return nil
	}
	cmd := exec.Command(helper, "options", fmt.Sprint(c.Setters), fmt.Sprint(c.Mode), "30")
	cmd.Env = append(os.Environ(), fmt.Sprintf("GOMAXPROCS=%d", c.GoMaxProcs), "GORACE=halt_on_error=1")
	var stdout, stderr bytes.Buffer
	cmd.Stdout, cmd.Stderr = &stdout, &stderr
	err := cmd.Run()
	if strings.Contains(stderr.String(), "DATA RACE") {
		return []string{fmt.Sprintf("data race between the option listing and %d goroutine(s) setting option defaults (mode %d):\n%.3000s", c.Setters, c.Mode, stderr.String())}
	}
	if err != nil {
		return []string{fmt.Sprintf("session with concurrent option updates failed: %v\n%.2000s", err, stderr.String())}
	}
	gran := map[string]bool{"lines": true, "functions": true, "files": true, "addresses": true, "filefunctions": true}
	n := 0
	for _, m := range optLine.FindAllStringSubmatch(stdout.String(), -1) {
		n++
		switch m[1] {
		case "granularity":
			if !gran[m[2]] {
				e.Addf("option listing shows granularity = %q, which no caller ever set", m[2])
			}
			if m[3] != "//: [addresses | filefunctions | files | functions | lines]" {
				e.Addf("option listing shows the granularity choices as %q", m[3])
			}
		case "nodecount":
			if v, err := strconv.Atoi(m[2]); err != nil || !(v == -1 || (v >= 10 && v <= 14)) {
				e.Addf("option listing shows nodecount = %q, which no caller ever set", m[2])
			}
		case "focus":
			if m[2] != `""` && m[2] != `"main"` && m[2] != `"ma.n"` {
				e.Addf("option listing shows focus = %s, which no caller ever set", m[2])
			}
		}
	}
	if n != 9 {
		e.Addf("expected three listings of granularity/nodecount/focus, found %d lines:\n%.1500s", n, stdout.String())
	}
	if i := strings.Index(stdout.String(), "==== report"); i < 0 || !regexp.MustCompile(`(?m)^\s+1\s+100%\s+100%\s+1\s+100%\s+\S`).MatchString(stdout.String()[i:]) {
		e.Addf("the report printed during the updates is not the one-row report of the profile:\n%.600s", stdout.String()[max(i, 0):])
	}
	o.Label(fmt.Sprintf("mode:%d", c.Mode))
	o.NonTrivial = true
	return e
}

func TestPropOptions(t *testing.T) {
	vk.Main(t, vk.Spec[optCase]{ID: "C20", Facet: "options", Quick: 30, Thorough: 200, Gen: genOpt, Check: checkOpt, CaseTimeout: 120 * time.Second,
		Rule: "a fresh race-enabled helper process per case: one interactive session lists the options three times ('o', a pure read) and prints a report while 1..3 goroutines set option defaults through driver.SetVariableDefault (granularity=<choice>, <choice>=true, nodecount, focus) until the session ends, at GOMAXPROCS 2/4/16; oracle: no data race, the session succeeds, every listed value is one some caller set, the granularity choices are listed intact, the report is the profile's; every case is non-trivial (the first listing of a process is where shared option metadata would be touched, hence one process per case)"})
}

// ---- facet perf: several perf.data sources converted in parallel, each into a temporary file of its own ----

type perfCase struct {
	N     int
	Delay []int // x10 ms before each conversion writes its output
}

func genPerf(t *rapid.T) *perfCase {
	return &perfCase{N: rapid.IntRange(2, 6).Draw(t, "n"), Delay: rapid.SliceOfN(rapid.IntRange(0, 4), 6, 6).Draw(t, "delay")}
}

var perfOnce sync.Once
var perfDir string

// setupPerf installs a stand-in perf_to_profile on pprof's PATH. Like the real converter it refuses to write over
// an existing file unless -f is given; the "perf.data" it reads is the magic, a delay, and the profile to emit.
func setupPerf() {
	toolOnce.Do(setupTools)
	perfDir = scratch("perf")
	os.Setenv("TMPDIR", perfDir)
	script := "#!/bin/sh\nin=; out=; force=\nwhile [ $# -gt 0 ]; do case \"$1\" in -i) in=\"$2\"; shift;; -o) out=\"$2\"; shift;; -f) force=1;; esac; shift; done\n" +
		"d=$(/usr/bin/head -c 10 \"$in\" | /usr/bin/tail -c 2)\n/usr/bin/sleep 0.$d\n" +
		"if [ -z \"$force\" ] && [ -e \"$out\" ]; then echo \"File already exists: $out\" >&2; exit 1; fi\n" +
		"/usr/bin/tail -c +11 \"$in\" > \"$out\"\n"
	os.WriteFile(filepath.Join(os.Getenv("PATH"), "perf_to_profile"), []byte(script), 0o755)
}

func checkPerf(c *perfCase, o *vk.Obs) []string {
	var e vk.Errs
	perfOnce.Do(setupPerf)
	var args []string
	for i := 0; i < c.N; i++ {
		f := &profile.Function{ID: 1, Name: fmt.Sprintf("fn%d", i), SystemName: fmt.Sprintf("fn%d", i)}
		l := &profile.Location{ID: 1, Address: 0x10 + uint64(i), Line: []profile.Line{{Function: f, Line: 1}}}
		p := &profile.Profile{SampleType: []*profile.ValueType{{Type: "samples", Unit: "count"}}, PeriodType: &profile.ValueType{Type: "cpu", Unit: "nanoseconds"}, Period: 1,
			Function: []*profile.Function{f}, Location: []*profile.Location{l}, Sample: []*profile.Sample{{Location: []*profile.Location{l}, Value: []int64{int64(1000 + i)}}}}
		var b bytes.Buffer
		fmt.Fprintf(&b, "PERFILE2%02d", c.Delay[i%len(c.Delay)]*2+1)
		p.Write(&b)
		name := filepath.Join(perfDir, fmt.Sprintf("perf%d.data", i))
		os.WriteFile(name, b.Bytes(), 0o644)
		args = append(args, name)
	}
	res := pp.Run(pp.Req{Flags: map[string]string{"traces": "true", "output": "out", "symbolize": "none"}, Args: args, NoFetch: true})
	if res.Panic != "" {
		return []string{"pprof panicked: " + res.Panic}
	}
	if res.Err != nil {
		e.Addf("%d perf.data sources: %v", c.N, res.Err)
		return e
	}
	out := res.Out("out")
	for i := 0; i < c.N; i++ {
		if !strings.Contains(out, fmt.Sprintf("%d   fn%d", 1000+i, i)) {
			e.Addf("perf.data source %d of %d (value %d) is missing from the merged report: its conversion shared a temporary file with another one?\n%.500s\nmessages: %q", i, c.N, 1000+i, out, res.UI.Errs)
			break
		}
	}
	if ents, err := os.ReadDir(perfDir); err == nil {
		for _, en := range ents {
			if strings.HasPrefix(en.Name(), "pprof_") {
				e.Addf("temporary file %s is left behind after the run", en.Name())
				os.Remove(filepath.Join(perfDir, en.Name()))
			}
		}
	}
	o.NonTrivial = true
	return e
}

func TestPropPerf(t *testing.T) {
	vk.Main(t, vk.Spec[perfCase]{ID: "C20", Facet: "perf", Quick: 40, Thorough: 250, Gen: genPerf, Check: checkPerf, CaseTimeout: 120 * time.Second,
		Rule: "2..6 perf.data sources given to one pprof run, fetched and converted in parallel by a stand-in perf_to_profile (on pprof's PATH; like the real tool it refuses to overwrite an existing output unless forced, and takes 10..90 ms per drawn delay); oracle: every source is present in the merged report (each conversion got a temporary file of its own), no temporary file is left behind; under the race detector; every case is non-trivial"})
}
