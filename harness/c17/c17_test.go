package c17

import (
	"encoding/json"
	"fmt"
	"net/url"
	"strings"
	"testing"

	"github.com/google/pprof/internal/report"
	"github.com/google/pprof/profile"
	"github.com/google/pprof/xverif/gen"
	"github.com/google/pprof/xverif/model"
	"github.com/google/pprof/xverif/pp"
	"github.com/google/pprof/xverif/rep"
	"github.com/google/pprof/xverif/vk"
	"pgregory.net/rapid"
)

type stackCase struct {
	P   *gen.Prof
	Web bool
	C   rep.Conf // granularity / noinlines / showcolumns / sample index (web facet)
	Idx int      // sample index (direct facet)
}

var opts = gen.Opts{Alpha: gen.Plain, MaxSamples: 8, MaxDepth: 6, MaxLines: 3, MinTypes: 1, MaxTypes: 3, AnyIDs: true, NoHugeIDs: true,
	Labels: true, EmptyStacks: true, NoMapping: true, Unsym: true, LosslessU: true, Columns: true, Unused: true, NearDup: true}

func genCase(t *rapid.T) *stackCase {
	p := rep.GenProfile(t, opts)
	c := &stackCase{P: p, Web: rapid.Bool().Draw(t, "web")}
	c.C = rep.GenConf(t, p, []string{"top"})
	c.C.Mean = false
	if !c.Web {
		c.C.TagRoot, c.C.TagLeaf = nil, nil // the pseudo frames of -tagroot/-tagleaf are added by the driver
	}
	c.Idx = rapid.IntRange(0, len(p.SampleTypes)-1).Draw(t, "idx")
	return c
}

// expFrame is what a stack slot must show.
type expFrame struct {
	FullName string
	Inlined  bool
}

func lineInfo(base string, line, col int64) string {
	if col != 0 {
		return fmt.Sprint(base, ":", line, ":", col)
	}
	if line != 0 {
		return fmt.Sprint(base, ":", line)
	}
	return base
}

// checkSet verifies the invariants of a stack set against per-sample expectations.
// want[i] = caller-to-callee frames of sample i (nil entries = not asserted).
func checkSet(e *vk.Errs, ss *report.StackSet, values []int64, want [][]expFrame, total int64, o *vk.Obs) {
	if ss.Stacks == nil || ss.Sources == nil {
		e.Addf("Stacks or Sources is nil")
		return
	}
	if len(ss.Stacks) != len(values) {
		e.Addf("%d stacks for %d samples", len(ss.Stacks), len(values))
		return
	}
	if len(ss.Sources) == 0 || ss.Sources[0].FullName != "root" {
		e.Addf("Sources[0] is not the synthetic root")
		return
	}
	var sum, wantSum int64
	self := make([]int64, len(ss.Sources))
	recursion, inlined, sharedSrc := false, false, false
	usedBy := map[int]int{}
	for i, st := range ss.Stacks {
		if st.Sources == nil || len(st.Sources) == 0 {
			e.Addf("stack %d has no sources (not even the root)", i)
			continue
		}
		if st.Sources[0] != 0 {
			e.Addf("stack %d does not start at the root", i)
		}
		if st.Value != values[i] {
			e.Addf("stack %d has value %d, the sample's selected value is %d", i, st.Value, values[i])
		}
		sum += st.Value
		wantSum += values[i]
		seen := map[int]bool{}
		for j, src := range st.Sources {
			if src < 0 || src >= len(ss.Sources) {
				e.Addf("stack %d slot %d: source index %d out of range", i, j, src)
				return
			}
			if seen[src] {
				recursion = true
			}
			if !seen[src] {
				usedBy[src]++
			}
			seen[src] = true
			if j > 0 && src == 0 {
				e.Addf("stack %d slot %d: the root appears inside a stack", i, j)
			}
		}
		self[st.Sources[len(st.Sources)-1]] += st.Value
		if want[i] != nil {
			if len(st.Sources)-1 != len(want[i]) {
				e.Addf("stack %d has %d frames, the sample has %d (caller to callee: %v)", i, len(st.Sources)-1, len(want[i]), want[i])
				continue
			}
			for j, w := range want[i] {
				src := ss.Sources[st.Sources[j+1]]
				if src.FullName != w.FullName || src.Inlined != w.Inlined {
					e.Addf("stack %d frame %d: got %q inlined=%v, the sample's frame is %q inlined=%v", i, j, src.FullName, src.Inlined, w.FullName, w.Inlined)
				}
				if w.Inlined {
					inlined = true
				}
			}
		}
	}
	for _, n := range usedBy {
		if n > 1 {
			sharedSrc = true
		}
	}
	if sum != wantSum {
		e.Addf("stack values sum to %d, the signed total of the selected value is %d", sum, wantSum)
	}
	if ss.Total != total {
		e.Addf("Total is %d, the sum of absolute sample values is %d", ss.Total, total)
	}
	for si, src := range ss.Sources {
		if src.Places == nil {
			e.Addf("source %d (%q): Places is nil", si, src.FullName)
		}
		if len(src.Display) == 0 {
			e.Addf("source %d (%q): Display is empty", si, src.FullName)
		}
		if src.Self != self[si] {
			e.Addf("source %d (%q): Self is %d, the stacks it terminates sum to %d", si, src.FullName, src.Self, self[si])
		}
		// Places: every stack containing the source exactly once, at its outermost occurrence
		placeOf := map[int]int{}
		for _, pl := range src.Places {
			if pl.Stack < 0 || pl.Stack >= len(ss.Stacks) || pl.Pos < 0 || pl.Pos >= len(ss.Stacks[pl.Stack].Sources) {
				e.Addf("source %d (%q): place %v out of range", si, src.FullName, pl)
				continue
			}
			if _, dup := placeOf[pl.Stack]; dup {
				e.Addf("source %d (%q): stack %d listed twice in Places", si, src.FullName, pl.Stack)
			}
			placeOf[pl.Stack] = pl.Pos
			if ss.Stacks[pl.Stack].Sources[pl.Pos] != si {
				e.Addf("source %d (%q): place %v points at another source", si, src.FullName, pl)
			}
		}
		for i, st := range ss.Stacks {
			first := -1
			for j, s2 := range st.Sources {
				if s2 == si {
					first = j
					break
				}
			}
			pos, listed := placeOf[i]
			switch {
			case first >= 0 && !listed:
				e.Addf("source %d (%q) occurs in stack %d but Places does not list it", si, src.FullName, i)
			case first < 0 && listed:
				e.Addf("source %d (%q) does not occur in stack %d but Places lists it", si, src.FullName, i)
			case first >= 0 && pos != first:
				e.Addf("source %d (%q): Places gives position %d in stack %d, the outermost occurrence is %d", si, src.FullName, pos, i, first)
			}
		}
	}
	// the JSON form must not contain null arrays
	b, err := json.Marshal(ss)
	if err != nil {
		e.Addf("stack set does not serialise: %v", err)
	} else if strings.Contains(string(b), "null") {
		var generic map[string]any
		json.Unmarshal(b, &generic)
		if hasNull(generic) {
			e.Addf("JSON form contains null: %.300s", b)
		}
	}
	o.LabelIf(recursion, "recursion")
	o.LabelIf(inlined, "inlined")
	o.LabelIf(sharedSrc, "shared-source")
	o.NonTrivial = (recursion || inlined) && sharedSrc
}

func hasNull(v any) bool {
	switch x := v.(type) {
	case nil:
		return true
	case map[string]any:
		for _, y := range x {
			if hasNull(y) {
				return true
			}
		}
	case []any:
		for _, y := range x {
			if hasNull(y) {
				return true
			}
		}
	}
	return false
}

func abs(x int64) int64 {
	if x < 0 {
		return -x
	}
	return x
}

func check(c *stackCase, o *vk.Obs) []string {
	var e vk.Errs
	p := c.P.Build().Copy()
	if !c.Web {
		o.Label("direct")
		idx := c.Idx
		var values []int64
		var want [][]expFrame
		var total int64
		for _, s := range p.Sample {
			values = append(values, s.Value[idx])
			total += abs(s.Value[idx])
			fr := []expFrame{}
			for i := len(s.Location) - 1; i >= 0; i-- {
				l := s.Location[i]
				for j := len(l.Line) - 1; j >= 0; j-- {
					ln := l.Line[j]
					base := ln.Function.Name
					if base == "" {
						base = ln.Function.Filename
					}
					fr = append(fr, expFrame{lineInfo(base, ln.Line, ln.Column), j != len(l.Line)-1})
				}
				o.LabelIf(len(l.Line) == 0, "frame-without-function")
			}
			o.LabelIf(len(s.Location) == 0, "empty-stack")
			want = append(want, fr)
		}
		var ss report.StackSet
		if pan := vk.Safely(func() {
			rpt := report.New(p, &report.Options{OutputFormat: report.Text, SampleValue: func(v []int64) int64 { return v[idx] }, SampleType: p.SampleType[idx].Type, SampleUnit: p.SampleType[idx].Unit, OutputUnit: "minimum", Ratio: 1})
			ss = rpt.Stacks()
		}); pan != "" {
			return []string{"Stacks() panicked: " + pan}
		}
		checkSet(&e, &ss, values, want, total, o)
		return e
	}
	// through the web UI
	o.Label("web")
	o.Label("gran:" + c.C.Gran)
	idx, ok := rep.ResolveIndex(p, c.C.SampleIndex)
	if !ok {
		return nil
	}
	fl := map[string]string{"tagroot": strings.Join(c.C.TagRoot, ","), "tagleaf": strings.Join(c.C.TagLeaf, ",")}
	o.LabelIf(len(c.C.TagRoot)+len(c.C.TagLeaf) > 0, "tagroot/tagleaf")
	w, err := pp.StartWeb(pp.Req{Flags: fl, Args: []string{"src"}, Sources: map[string]*pp.Source{"src": {Prof: p}}})
	if err != nil {
		e.Addf("web interface did not start: %v", err)
		return e
	}
	defer w.Close()
	q := url.Values{}
	q.Set("g", c.C.Gran)
	if c.C.NoInlines {
		q.Set("noinlines", "t")
	}
	if c.C.ShowColumns {
		q.Set("showcolumns", "t")
	}
	if c.C.SampleIndex != "" {
		q.Set("si", c.C.SampleIndex)
	}
	code, body, _, pan := w.Get("/flamegraph?" + q.Encode())
	if pan != "" {
		return []string{"/flamegraph handler panicked: " + pan}
	}
	if code != 200 {
		e.Addf("/flamegraph?%s answered %d: %.200s", q.Encode(), code, body)
		return e
	}
	i := strings.LastIndex(body, "stackViewer({")
	if i < 0 {
		e.Addf("/flamegraph page has no stackViewer(...) call")
		return e
	}
	var ss report.StackSet
	dec := json.NewDecoder(strings.NewReader(body[i+len("stackViewer("):]))
	if err := dec.Decode(&ss); err != nil {
		e.Addf("stack data in the /flamegraph page is not valid JSON: %v", err)
		return e
	}
	var raw map[string]any
	json.NewDecoder(strings.NewReader(body[i+len("stackViewer("):])).Decode(&raw)
	if hasNull(raw) {
		e.Addf("stack data in the /flamegraph page contains null")
	}
	mc := c.C.Model(idx, false)
	var values []int64
	var want [][]expFrame
	var total int64
	for _, s := range p.Sample {
		values = append(values, s.Value[idx])
		total += abs(s.Value[idx])
		fr := []expFrame{}
		for _, f := range model.FramesRootFirst(s, mc) {
			if !f.HasFn {
				continue // a location without lines contributes no frame (the statement is silent)
			}
			base := f.Name
			if base == "" {
				base = f.File
			}
			fr = append(fr, expFrame{lineInfo(base, f.Line, f.Col), f.Inlined})
		}
		want = append(want, fr)
	}
	checkSet(&e, &ss, values, want, total, o)
	return e
}

func TestPropStacks(t *testing.T) {
	vk.Main(t, vk.Spec[stackCase]{ID: "C17", Facet: "stacks", Quick: 3000, Thorough: 20000, Gen: genCase, Check: check, Journal: true,
		Rule: "generated profiles (recursion, inlined multi-line locations, frames without function, empty stacks, equal names in different files, near-duplicate frames with and without line info) observed (a) through report.New(...).Stacks() and (b) as the JSON embedded in the web UI's /flamegraph page at every granularity x noinlines x showcolumns x sample_index; oracle: invariants from the statement (one stack per sample in order, rooted, frames caller-to-callee with inlined flags, value sums, Self, Places exactly-once-at-outermost, index ranges, no nulls, Display non-empty); non-trivial = (recursion or inlined frame) and two stacks sharing a source"})
}

var _ = profile.Parse
