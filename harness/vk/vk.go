// Package vk is the small kit shared by every property package: it runs a
// generated-input search (rapid) or a replay over a pure Check function,
// counts and classifies the cases, and writes the per-facet result file the
// ./check driver turns into evidence.
package vk

import (
	"bytes"
	"crypto/sha256"
	"encoding/base64"
	"encoding/gob"
	"encoding/hex"
	"encoding/json"
	"flag"
	"fmt"
	"os"
	"path/filepath"
	"runtime/debug"
	"sort"
	"strconv"
	"strings"
	"testing"
	"time"

	"pgregory.net/rapid"
)

// Obs is filled in by Check for every case: classification labels, the
// non-triviality verdict, and which known-finding signatures were skipped.
type Obs struct {
	Labels     map[string]bool
	NonTrivial bool
	Key        string // optional distinctness key; default: hash of the case
	Excluded   map[string]int
	Inconcl    []string // reasons the case could not be decided (never a violation)
}

func (o *Obs) Label(l string) {
	if o.Labels == nil {
		o.Labels = map[string]bool{}
	}
	o.Labels[l] = true
}

func (o *Obs) LabelIf(c bool, l string) {
	if c {
		o.Label(l)
	}
}

// Exclude records that an assertion covered by known-finding signature sig
// was skipped for this case.
func (o *Obs) Exclude(sig string) {
	if o.Excluded == nil {
		o.Excluded = map[string]int{}
	}
	o.Excluded[sig]++
}

// Spec describes one facet (one generator + one oracle) of a property.
type Spec[C any] struct {
	ID, Facet string
	Rule      string // how cases are generated and what makes one non-trivial
	Quick     int    // rapid checks, quick tier
	Thorough  int    // rapid checks per shard, thorough tier
	Gen       func(t *rapid.T) *C
	Check     func(c *C, o *Obs) []string
	Pretty    func(c *C) any // optional human-readable form for samples / replay files
	// CaseTimeout: if >0 a case running longer is reported as a hang.
	CaseTimeout time.Duration
	// Journal: write the case to disk before it runs, so that a process death
	// (a panic in a goroutine pprof spawned) is attributed to the case in flight.
	Journal bool
}

type failure struct {
	Msgs   []string `json:"violations"`
	Replay string   `json:"replay"`
}

type result struct {
	ID          string         `json:"property_id"`
	Facet       string         `json:"facet"`
	Tier        string         `json:"tier"`
	Seed        uint64         `json:"seed"`
	Shard       int            `json:"shard"`
	Evaluations int            `json:"evaluations"`
	NonTrivial  int            `json:"nontrivial"`
	Hashes      []string       `json:"nontrivial_hashes"`
	Labels      map[string]int `json:"labels"`
	Excluded    map[string]int `json:"excluded_known"`
	Inconcl     map[string]int `json:"inconclusive"`
	Samples     []any          `json:"samples"`
	Failures    []failure      `json:"failures"`
	Rule        string         `json:"rule"`
	WallS       float64        `json:"wall_s"`
	Requested   int            `json:"requested"`
	Mode        string         `json:"mode"`
}

// ReplayFile is the on-disk form of a (minimal) failing case.
type ReplayFile struct {
	Property   string   `json:"property"`
	Facet      string   `json:"facet"`
	Violations []string `json:"violations"`
	Case       any      `json:"case"`
	CaseGob    string   `json:"case_gob_b64"`
}

func env(k, d string) string {
	if v := os.Getenv(k); v != "" {
		return v
	}
	return d
}

// Tier returns "quick" or "thorough".
func Tier() string { return env("VERIF_TIER", "quick") }

// Seed returns the (never zero) seed for this process.
func Seed() uint64 {
	s, _ := strconv.ParseUint(env("VERIF_SEED", "1"), 10, 64)
	sh := uint64(Shard())
	s = s*131 + sh + 1
	if s == 0 {
		s = 0x9e3779b97f4a7c15
	}
	return s
}

func Shard() int {
	n, _ := strconv.Atoi(env("VERIF_SHARD", "0"))
	return n
}

func outDir() string { return env("VERIF_OUT", os.TempDir()) }

var known map[string]bool

// Known reports whether signature sig is listed as a recorded (not repaired)
// finding in the committed known-findings file.
func Known(sig string) bool {
	if known == nil {
		known = map[string]bool{}
		if b, err := os.ReadFile(env("VERIF_KNOWN", "")); err == nil {
			var f struct {
				Known []struct {
					Signature string `json:"signature"`
				} `json:"known"`
			}
			if json.Unmarshal(b, &f) == nil {
				for _, k := range f.Known {
					known[k.Signature] = true
				}
			}
		}
		if os.Getenv("VERIF_NO_KNOWN") != "" {
			known = map[string]bool{}
		}
	}
	return known[sig]
}

func encodeCase[C any](c *C) string {
	var b bytes.Buffer
	if err := gob.NewEncoder(&b).Encode(c); err != nil {
		panic("vk: case not gob-encodable: " + err.Error())
	}
	return base64.StdEncoding.EncodeToString(b.Bytes())
}

func hashOf(s string) string {
	h := sha256.Sum256([]byte(s))
	return hex.EncodeToString(h[:8])
}

func safeCheck[C any](s *Spec[C], c *C, o *Obs) (msgs []string) {
	run := func() (msgs []string) {
		defer func() {
			if r := recover(); r != nil {
				msgs = append(msgs, fmt.Sprintf("panic in check: %v\n%s", r, trimStack(debug.Stack())))
			}
		}()
		return s.Check(c, o)
	}
	if s.CaseTimeout <= 0 {
		return run()
	}
	done := make(chan []string, 1)
	go func() { done <- run() }()
	select {
	case m := <-done:
		return m
	case <-time.After(s.CaseTimeout):
		return []string{fmt.Sprintf("HANG: case did not finish within %v", s.CaseTimeout)}
	}
}

func trimStack(b []byte) string {
	lines := strings.Split(string(b), "\n")
	if len(lines) > 40 {
		lines = lines[:40]
	}
	return strings.Join(lines, "\n")
}

func pretty[C any](s *Spec[C], c *C) any {
	if s.Pretty != nil {
		return s.Pretty(c)
	}
	// JSON round trip so that invalid UTF-8 is made printable.
	b, err := json.Marshal(c)
	if err != nil {
		return fmt.Sprintf("%+v", c)
	}
	var v any
	json.Unmarshal(b, &v)
	return v
}

func writeJSON(path string, v any) {
	b, err := json.MarshalIndent(v, "", " ")
	if err != nil {
		panic(err)
	}
	os.MkdirAll(filepath.Dir(path), 0o755)
	if err := os.WriteFile(path, b, 0o644); err != nil {
		panic(err)
	}
}

// Main runs the facet: a replay when VERIF_REPLAY names a file for this
// facet, otherwise the generated search.
func Main[C any](t *testing.T, s Spec[C]) {
	if rp := os.Getenv("VERIF_REPLAY"); rp != "" {
		replay(t, &s, rp)
		return
	}
	if only := os.Getenv("VERIF_FACET"); only != "" && only != s.Facet {
		t.Skip("facet not selected")
	}
	n := s.Quick
	if Tier() == "thorough" {
		n = s.Thorough
	}
	if v := os.Getenv("VERIF_N"); v != "" {
		n, _ = strconv.Atoi(v)
	}
	if sc := os.Getenv("VERIF_SCALE"); sc != "" {
		f, _ := strconv.ParseFloat(sc, 64)
		if f > 0 {
			n = int(float64(n) * f)
		}
	}
	if n < 1 {
		n = 1
	}
	flag.Set("rapid.checks", strconv.Itoa(n))
	flag.Set("rapid.seed", strconv.FormatUint(Seed(), 10))
	flag.Set("rapid.nofailfile", "true")
	if os.Getenv("VERIF_SHRINKTIME") != "" {
		flag.Set("rapid.shrinktime", os.Getenv("VERIF_SHRINKTIME"))
	}

	res := &result{ID: s.ID, Facet: s.Facet, Tier: Tier(), Seed: Seed(), Shard: Shard(),
		Labels: map[string]int{}, Excluded: map[string]int{}, Inconcl: map[string]int{}, Rule: s.Rule, Requested: n, Mode: "rapid"}
	seen := map[string]bool{}
	start := time.Now()
	failed := false
	failPath := filepath.Join(outDir(), fmt.Sprintf("fail-%s-%s-%d.json", s.ID, s.Facet, Shard()))
	resPath := filepath.Join(outDir(), fmt.Sprintf("result-%s-%s-%d.json", s.ID, s.Facet, Shard()))
	os.Remove(failPath)
	flush := func() {
		res.WallS = time.Since(start).Seconds()
		res.Hashes = res.Hashes[:0]
		for h := range seen {
			res.Hashes = append(res.Hashes, h)
		}
		sort.Strings(res.Hashes)
		res.NonTrivial = len(seen)
		writeJSON(resPath, res)
	}
	defer flush()

	inflight := filepath.Join(outDir(), fmt.Sprintf("inflight-%s-%s-%d.json", s.ID, s.Facet, Shard()))
	if s.Journal {
		defer os.Remove(inflight)
	}
	rapid.Check(t, func(rt *rapid.T) {
		c := s.Gen(rt)
		o := &Obs{}
		if s.Journal {
			b, _ := json.Marshal(ReplayFile{Property: s.ID, Facet: s.Facet, Violations: []string{"the test process died while this case was running (crash in a goroutine pprof started, fatal error, or os.Exit)"}, CaseGob: encodeCase(c)})
			os.WriteFile(inflight, b, 0o644)
		}
		msgs := safeCheck(&s, c, o)
		if !failed {
			res.Evaluations++
			for l := range o.Labels {
				res.Labels[l]++
			}
			for k, v := range o.Excluded {
				res.Excluded[k] += v
			}
			for _, k := range o.Inconcl {
				res.Inconcl[k]++
			}
			if o.NonTrivial {
				k := o.Key
				if k == "" {
					k = encodeCase(c)
				}
				h := hashOf(k)
				if !seen[h] {
					seen[h] = true
					if len(res.Samples) < 3 || (len(seen)%997 == 0 && len(res.Samples) < 5) {
						res.Samples = append(res.Samples, map[string]any{"labels": keys(o.Labels), "case": pretty(&s, c)})
					}
				}
			}
		}
		if len(msgs) > 0 {
			// The last write wins: rapid re-runs the minimal case last.
			failed = true
			writeJSON(failPath, ReplayFile{Property: s.ID, Facet: s.Facet, Violations: msgs, Case: pretty(&s, c), CaseGob: encodeCase(c)})
			res.Failures = []failure{{Msgs: msgs, Replay: failPath}}
			flush()
			if strings.HasPrefix(msgs[0], "HANG:") {
				// a hung goroutine cannot be unwound; leave now.
				fmt.Printf("VK-HANG %s\n", failPath)
				os.Exit(3)
			}
			rt.Fatalf("%s/%s violated:\n%s", s.ID, s.Facet, strings.Join(msgs, "\n"))
		}
	})
}

func keys(m map[string]bool) []string {
	var k []string
	for s := range m {
		k = append(k, s)
	}
	sort.Strings(k)
	return k
}

func replay[C any](t *testing.T, s *Spec[C], path string) {
	b, err := os.ReadFile(path)
	if err != nil {
		t.Fatalf("replay: %v", err)
	}
	var rf ReplayFile
	if err := json.Unmarshal(b, &rf); err != nil {
		t.Fatalf("replay: %v", err)
	}
	if rf.Facet != s.Facet || rf.Property != s.ID {
		t.Skip("replay file is for another facet")
	}
	raw, err := base64.StdEncoding.DecodeString(rf.CaseGob)
	if err != nil {
		t.Fatalf("replay: %v", err)
	}
	c := new(C)
	if err := gob.NewDecoder(bytes.NewReader(raw)).Decode(c); err != nil {
		t.Fatalf("replay: %v", err)
	}
	o := &Obs{}
	msgs := safeCheck(s, c, o)
	fmt.Printf("VK-REPLAY property=%s facet=%s violations=%d excluded=%v\n", s.ID, s.Facet, len(msgs), o.Excluded)
	for _, m := range msgs {
		fmt.Printf("  %s\n", m)
	}
	if len(msgs) > 0 {
		t.Fatalf("replayed case violates %s/%s", s.ID, s.Facet)
	}
}

// Errs is a small helper to accumulate violation messages.
type Errs []string

func (e *Errs) Addf(format string, a ...any) {
	if len(*e) < 20 {
		*e = append(*e, fmt.Sprintf(format, a...))
	}
}

// Safely runs f and reports a recovered panic as an error string.
func Safely(f func()) (pan string) {
	defer func() {
		if r := recover(); r != nil {
			pan = fmt.Sprintf("%v\n%s", r, trimStack(debug.Stack()))
		}
	}()
	f()
	return ""
}

// FuzzReport is used by native fuzz targets: it stores the failing case as a replay file
// in the run's output directory so that the driver reports it like any other violation.
func FuzzReport[C any](s *Spec[C], c *C, msgs []string) string {
	path := filepath.Join(outDir(), fmt.Sprintf("fail-%s-%s-fuzz-%s.json", s.ID, s.Facet, hashOf(encodeCase(c))))
	writeJSON(path, ReplayFile{Property: s.ID, Facet: s.Facet, Violations: msgs, Case: pretty(s, c), CaseGob: encodeCase(c)})
	return path
}
