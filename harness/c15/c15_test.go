package c15

import (
	"fmt"
	"math"
	"regexp"
	"strconv"
	"strings"
	"testing"

	"github.com/google/pprof/internal/measurement"
	"github.com/google/pprof/profile"
	"github.com/google/pprof/xverif/model"
	"github.com/google/pprof/xverif/pp"
	"github.com/google/pprof/xverif/vk"
	"pgregory.net/rapid"
)

// The harness's own unit table (aliases as declared by pprof's unit table, factors
// re-derived from the unit definitions, not read from the implementation).
type unit struct {
	canon   string
	aliases []string
	factor  float64
}

var families = [][]unit{
	{{"B", []string{"b", "byte"}, 1}, {"kB", []string{"kb", "kbyte", "kilobyte"}, 1024}, {"MB", []string{"mb", "mbyte", "megabyte"}, 1024 * 1024},
		{"GB", []string{"gb", "gbyte", "gigabyte"}, 1024 * 1024 * 1024}, {"TB", []string{"tb", "tbyte", "terabyte"}, 1024 * 1024 * 1024 * 1024}, {"PB", []string{"pb", "pbyte", "petabyte"}, 1024 * 1024 * 1024 * 1024 * 1024}},
	{{"ns", []string{"ns", "nanosecond"}, 1}, {"us", []string{"μs", "us", "microsecond"}, 1e3}, {"ms", []string{"ms", "millisecond"}, 1e6},
		{"s", []string{"s", "sec", "second"}, 1e9}, {"hrs", []string{"hour", "hr"}, 3600e9}},
	{{"n*GCU", []string{"nanogcu"}, 1e-9}, {"u*GCU", []string{"microgcu"}, 1e-6}, {"m*GCU", []string{"milligcu"}, 1e-3}, {"GCU", []string{"gcu"}, 1},
		{"k*GCU", []string{"kilogcu"}, 1e3}, {"M*GCU", []string{"megagcu"}, 1e6}, {"G*GCU", []string{"gigagcu"}, 1e9}, {"T*GCU", []string{"teragcu"}, 1e12}, {"P*GCU", []string{"petagcu"}, 1e15}},
}

var defaultUnit = []string{"B", "s", "GCU"}

type spelled struct {
	Fam, Idx int
	Text     string
}

// spelling draws a way of writing unit (fam, idx): alias, upper/title case, plural.
func spelling(t *rapid.T, label string) spelled {
	fam := rapid.IntRange(0, len(families)-1).Draw(t, label+"fam")
	idx := rapid.IntRange(0, len(families[fam])-1).Draw(t, label+"idx")
	u := families[fam][idx]
	a := rapid.SampledFrom(u.aliases).Draw(t, label+"alias")
	if rapid.IntRange(0, 5).Draw(t, label+"canonical") == 0 {
		// the canonical name itself, exactly as pprof prints it (the only spelling of "M*GCU" vs "m*GCU")
		return spelled{fam, idx, u.canon}
	}
	switch rapid.IntRange(0, 3).Draw(t, label+"case") {
	case 1:
		a = strings.ToUpper(a)
	case 2:
		r := []rune(a)
		a = strings.ToUpper(string(r[:1])) + string(r[1:])
	}
	// plural forms: only for spellings of three or more letters (two-letter units such as ms, ns, us end in s themselves)
	if len([]rune(a)) >= 3 && rapid.Bool().Draw(t, label+"plural") {
		if a == strings.ToUpper(a) {
			a += "S"
		} else {
			a += "s"
		}
	}
	return spelled{fam, idx, a}
}

var unknownUnits = []string{"foo", "widgets", "count", "xyzs", "kilowidgets", "", "bytess", "m", "k", "sample", "unit", "objects"}

var edgeValues = []int64{0, 1, -1, 2, 999, 1000, 1001, 1023, 1024, 1025, 1 << 20, 1<<20 - 1, 1<<20 + 1, 1e6, 1e9, 1e9 - 1, 1e9 + 1, 1e12, 1e15, 1e18,
	1 << 30, 1 << 40, 1 << 50, 1 << 53, 1<<53 + 1, 1 << 62, math.MaxInt64, math.MaxInt64 - 1, math.MinInt64, math.MinInt64 + 1, 3599999999999, 3600000000000, 3600000000001, 59, 60, 61}

func value(t *rapid.T, label string) int64 {
	return rapid.OneOf(rapid.SampledFrom(edgeValues), rapid.Int64Range(-100000, 100000), rapid.Int64(),
		rapid.Custom(func(t *rapid.T) int64 {
			v := rapid.SampledFrom(edgeValues).Draw(t, "ev")
			if rapid.Bool().Draw(t, "neg") && v != math.MinInt64 {
				return -v
			}
			return v
		})).Draw(t, label)
}

func ulpEq(a, b float64) bool {
	if a == b {
		return true
	}
	d := math.Abs(a - b)
	m := math.Max(math.Abs(a), math.Abs(b))
	return d <= m*4*2.220446049250313e-16
}

func famOfCanon(u string) (int, int, bool) {
	for fi, f := range families {
		for ui, x := range f {
			if x.canon == u {
				return fi, ui, true
			}
		}
	}
	return 0, 0, false
}

// ---- facet scale ----

type scaleCase struct {
	V        int64
	From, To spelled
	ToMode   int // 0 spelled unit, 1 auto, 2 minimum, 3 unknown unit, 4 same text as From
	ToUnk    string
	FromUnk  string // when non-empty the from unit is this unknown unit
}

func genScale(t *rapid.T) *scaleCase {
	c := &scaleCase{V: value(t, "v"), From: spelling(t, "from"), To: spelling(t, "to"), ToMode: rapid.IntRange(0, 4).Draw(t, "tomode"),
		ToUnk: rapid.SampledFrom(unknownUnits).Draw(t, "tounk")}
	if rapid.IntRange(0, 5).Draw(t, "fromunknown") == 0 {
		c.FromUnk = rapid.SampledFrom(unknownUnits[:4]).Draw(t, "fromunk")
	}
	if rapid.Bool().Draw(t, "samefam") {
		c.To.Fam = c.From.Fam
		c.To.Idx = c.To.Idx % len(families[c.From.Fam])
		u := families[c.To.Fam][c.To.Idx]
		c.To.Text = u.aliases[0]
	}
	return c
}

func checkScale(c *scaleCase, o *vk.Obs) []string {
	var e vk.Errs
	from := c.From.Text
	to := c.To.Text
	switch c.ToMode {
	case 1:
		to = "auto"
	case 2:
		to = "minimum"
	case 3:
		to = c.ToUnk
	case 4:
		to = from
	}
	if c.FromUnk != "" {
		from = c.FromUnk
		if c.ToMode == 4 {
			to = from
		}
		o.Label("unknown-from")
		got, gu := measurement.Scale(c.V, from, to)
		if got != float64(c.V) {
			e.Addf("Scale(%d, %q, %q) = %v %q: an unknown unit must leave the value unchanged", c.V, from, to, got, gu)
		}
		if _, _, known := famOfCanon(gu); known && gu != to {
			e.Addf("Scale(%d, %q, %q) returned the known unit %q for a value in an unknown unit", c.V, from, to, gu)
		}
		o.NonTrivial = true
		return e
	}
	fu := families[c.From.Fam][c.From.Idx]
	got, gu := measurement.Scale(c.V, from, to)
	base := float64(c.V) * fu.factor
	o.Label([]string{"to-unit", "to-auto", "to-minimum", "to-unknown", "to-same"}[c.ToMode])
	gf, gi, known := famOfCanon(gu)
	if !known {
		e.Addf("Scale(%d, %q, %q) = %v %q: result unit is not a unit of the source family (alias %q of %s not recognised?)", c.V, from, to, got, gu, from, fu.canon)
		return e
	}
	if gf != c.From.Fam {
		e.Addf("Scale(%d, %q, %q) = %v %q: crossed unit families", c.V, from, to, got, gu)
		return e
	}
	want := base / families[gf][gi].factor
	if !ulpEq(got, want) {
		e.Addf("Scale(%d, %q, %q) = %v %s, exact ratio gives %v %s", c.V, from, to, got, gu, want, gu)
	}
	switch c.ToMode {
	case 0:
		if c.To.Fam == c.From.Fam {
			o.LabelIf(c.To.Idx != c.From.Idx, "same-family-ratio")
			o.NonTrivial = c.To.Idx != c.From.Idx
			if gu != families[c.To.Fam][c.To.Idx].canon {
				e.Addf("Scale(%d, %q, %q) answered in %q instead of %q", c.V, from, to, gu, families[c.To.Fam][c.To.Idx].canon)
			}
		} else {
			o.Label("cross-family-target")
			if gu != defaultUnit[c.From.Fam] {
				e.Addf("Scale(%d, %q, %q): target of another family; expected the family default %q, got %q", c.V, from, to, defaultUnit[c.From.Fam], gu)
			}
		}
	case 4:
		if got != float64(c.V) && c.V > -(1<<53) && c.V < 1<<53 {
			e.Addf("Scale(%d, %q, %q) = %v: not the identity for equal units", c.V, from, to, got)
		}
	case 1, 2:
		// largest unit that keeps the magnitude at or above one
		o.NonTrivial = true
		mag := math.Abs(base)
		wantIdx := -1
		for i, u := range families[gf] {
			if mag/u.factor >= 1 {
				wantIdx = i
			}
		}
		if wantIdx >= 0 && gi != wantIdx {
			e.Addf("Scale(%d, %q, %q) chose %q; the largest unit with magnitude >= 1 is %q", c.V, from, to, gu, families[gf][wantIdx].canon)
		}
		if wantIdx < 0 && gu != defaultUnit[gf] && mag == 0 {
			e.Addf("Scale(0, %q, %q) chose %q instead of the family default", from, to, gu)
		}
	}
	// negation
	if c.V != math.MinInt64 {
		n, nu := measurement.Scale(-c.V, from, to)
		if n != -got || nu != gu {
			e.Addf("Scale(%d)=%v %s but Scale(%d)=%v %s: does not commute with negation", c.V, got, gu, -c.V, n, nu)
		}
	}
	return e
}

func TestPropScale(t *testing.T) {
	vk.Main(t, vk.Spec[scaleCase]{ID: "C15", Facet: "scale", Quick: 30000, Thorough: 400000, Gen: genScale, Check: checkScale,
		Rule: "int64 values (0, ±1, powers of 1000/1024 ±1, 2^53±1, extremes, MinInt64, random) x source unit spelling (every declared alias x lower/UPPER/Title case x plural) or unknown unit x target (spelled unit of same/other family, auto, minimum, unknown, identical); oracle: exact ratio from the harness's own factor table (<=4 ulp), family preservation, identity, negation, auto = largest unit with magnitude >= 1; non-trivial = same-family ratio != 1, auto/minimum selection, or unknown source"})
}

// ---- facet label ----

type labelCase struct {
	V1, V2 int64
	From   spelled
	Mode   int // 0 auto, 1 minimum, 2 explicit same family
	To     spelled
	Tot    int64
}

func genLabel(t *rapid.T) *labelCase {
	c := &labelCase{V1: value(t, "v1"), V2: value(t, "v2"), From: spelling(t, "from"), Mode: rapid.IntRange(0, 2).Draw(t, "mode"), To: spelling(t, "to"), Tot: value(t, "tot")}
	if rapid.Bool().Draw(t, "near") && c.V1 < math.MaxInt64-10 {
		c.V2 = c.V1 + rapid.Int64Range(0, 10).Draw(t, "delta")
	}
	return c
}

func readBack(label string) (float64, bool, string) {
	if label == "0" {
		return 0, true, ""
	}
	v, u, err := model.ParseValue(label)
	if err != nil {
		return 0, false, ""
	}
	fi, ui, ok := famOfCanon(u)
	if !ok {
		return 0, false, u
	}
	return v * families[fi][ui].factor, true, u
}

func checkLabel(c *labelCase, o *vk.Obs) []string {
	var e vk.Errs
	to := []string{"auto", "minimum", ""}[c.Mode]
	if c.Mode == 2 {
		u := families[c.From.Fam][c.To.Idx%len(families[c.From.Fam])]
		to = u.aliases[0]
	}
	fu := families[c.From.Fam][c.From.Idx]
	lab := func(v int64) string { return measurement.ScaledLabel(v, c.From.Text, to) }
	l1, l2 := lab(c.V1), lab(c.V2)
	b1, ok1, u1 := readBack(l1)
	b2, ok2, _ := readBack(l2)
	if !ok1 || !ok2 {
		e.Addf("ScaledLabel(%d,%q,%q)=%q / ScaledLabel(%d)=%q: cannot be read back as number+unit of the source family", c.V1, c.From.Text, to, l1, c.V2, l2)
		return e
	}
	o.NonTrivial = true
	o.LabelIf(c.Mode < 2, "auto-unit")
	// within display rounding (two decimals of the printed unit) of the original
	check := func(v int64, label string, back float64) {
		if label == "0" {
			// "0" is printed only for magnitudes that round to 0.00 in the unit that was asked for
			// (automatic selection keeps the magnitude >= 1, so only for the value 0)
			limit := 0.0
			if c.Mode == 2 {
				limit = 0.005000001 * families[c.From.Fam][c.To.Idx%len(families[c.From.Fam])].factor
			}
			if math.Abs(float64(v)*fu.factor) > limit {
				e.Addf("ScaledLabel(%d, %q, %q) = \"0\" although the magnitude is %v base units", v, c.From.Text, to, math.Abs(float64(v)*fu.factor))
			}
			return
		}
		_, u, _ := model.ParseValue(label)
		fi, ui, _ := famOfCanon(u)
		f := families[fi][ui].factor
		want := float64(v) * fu.factor
		tol := 0.005*f*1.0000001 + math.Abs(want)*1e-12
		if math.Abs(back-want) > tol {
			e.Addf("ScaledLabel(%d, %q, %q) = %q reads back as %v base units, original is %v (tolerance %v)", v, c.From.Text, to, label, back, want, tol)
		}
	}
	check(c.V1, l1, b1)
	check(c.V2, l2, b2)
	_ = u1
	// monotone
	lo, hi, blo, bhi := c.V1, c.V2, b1, b2
	if lo > hi {
		lo, hi, blo, bhi = hi, lo, bhi, blo
	}
	// each label is within display rounding of its value, so two labels in different units may
	// cross by at most the sum of their rounding errors; in the same unit they must be ordered
	mtol := math.Abs(bhi) * 1e-12
	{
		_, ua, _ := model.ParseValue(lab(lo))
		_, ub, _ := model.ParseValue(lab(hi))
		if ua != ub || lab(lo) == "0" || lab(hi) == "0" {
			for _, l := range []string{lab(lo), lab(hi)} {
				if _, u, err := model.ParseValue(l); err == nil {
					if fi, ui, ok := famOfCanon(u); ok {
						mtol += 0.005 * families[fi][ui].factor * 1.000001
					}
				}
			}
			if lab(lo) == "0" || lab(hi) == "0" {
				mtol += 0.005 * families[c.From.Fam][len(families[c.From.Fam])-1].factor
			}
		}
	}
	if blo > bhi+mtol {
		e.Addf("labels are not monotone: %d -> %q (%v) but %d -> %q (%v)", lo, lab(lo), blo, hi, lab(hi), bhi)
	}
	// Label() is ScaledLabel with automatic unit selection
	if measurement.Label(c.V1, c.From.Text) != measurement.ScaledLabel(c.V1, c.From.Text, "auto") {
		e.Addf("Label and ScaledLabel(auto) disagree for %d %q", c.V1, c.From.Text)
	}
	// percentage: depends only on magnitudes
	v, tot := c.V1, c.Tot
	if v != math.MinInt64 && tot != math.MinInt64 {
		p := measurement.Percentage(v, tot)
		for _, q := range []string{measurement.Percentage(-v, tot), measurement.Percentage(v, -tot), measurement.Percentage(-v, -tot)} {
			if q != p {
				e.Addf("Percentage(%d,%d)=%q changes with the signs (%q)", v, tot, p, q)
			}
		}
		if tot == 0 && strings.TrimSpace(p) != "0%" {
			e.Addf("Percentage(%d, 0) = %q, want 0%%", v, p)
		}
		if tot != 0 {
			ratio := math.Abs(float64(v)/float64(tot)) * 100
			pv, _, err := model.ParseValue(strings.TrimSpace(strings.TrimSuffix(strings.TrimSpace(p), "%")))
			if err != nil {
				e.Addf("Percentage(%d,%d)=%q is not a number", v, tot, p)
			} else if ratio >= 99.95 && ratio <= 100.05 {
				if strings.TrimSpace(p) != "100%" {
					e.Addf("Percentage(%d,%d)=%q, want 100%%", v, tot, p)
				}
			} else if math.Abs(pv-ratio) > math.Max(0.0051, ratio*0.051) {
				e.Addf("Percentage(%d,%d)=%q but the ratio is %v%%", v, tot, p, ratio)
			}
		}
	}
	return e
}

func TestPropLabel(t *testing.T) {
	vk.Main(t, vk.Spec[labelCase]{ID: "C15", Facet: "label", Quick: 30000, Thorough: 400000, Gen: genLabel, Check: checkLabel,
		Rule: "pairs of values (often neighbours) in a drawn unit spelling, formatted with auto / minimum / an explicit unit of the family; oracle: label reads back (own parser + own factor table) within display rounding (0.005 of the printed unit) of the original, labels are monotone in the value, Label == ScaledLabel(auto), Percentage depends only on magnitudes, prints 100% inside its window and 0% for a zero total; every case with a readable label is non-trivial"})
}

// ---- facet profiles: ScaleProfiles preserves physical totals and keeps every non-zero sample ----

type profCase struct {
	Units [][]int     // per profile, per sample type: index into the time family (ns,us,ms,s)
	Vals  [][][]int64 // per profile, per sample, per type
	Spell []int
	// Cross: when non-empty, type 0 of the LAST profile is recorded in this unit of another family
	Cross string
}

var timeSpell = [][]string{{"nanoseconds", "ns", "nanosecond"}, {"microseconds", "us", "μs"}, {"milliseconds", "ms", "MILLISECONDS"}, {"seconds", "s", "sec"}}

func genProf(t *rapid.T) *profCase {
	np := rapid.IntRange(1, 4).Draw(t, "nprofiles")
	nt := rapid.IntRange(1, 3).Draw(t, "ntypes")
	c := &profCase{}
	for i := 0; i < np; i++ {
		var us []int
		for j := 0; j < nt; j++ {
			us = append(us, rapid.IntRange(0, 3).Draw(t, "unit"))
		}
		c.Units = append(c.Units, us)
		c.Spell = append(c.Spell, rapid.IntRange(0, 2).Draw(t, "spell"))
		ns := rapid.IntRange(0, 4).Draw(t, "nsamples")
		var ss [][]int64
		for k := 0; k < ns; k++ {
			var vs []int64
			for j := 0; j < nt; j++ {
				vs = append(vs, rapid.SampledFrom([]int64{0, 0, 1, 7, -3, 999, 1000, 1499, 1500, 123456}).Draw(t, "val"))
			}
			ss = append(ss, vs)
		}
		c.Vals = append(c.Vals, ss)
	}
	if np > 1 && rapid.IntRange(0, 5).Draw(t, "cross") == 0 {
		c.Cross = rapid.SampledFrom([]string{"bytes", "kb", "MB", "gcu", "milligcu", "kilobytes"}).Draw(t, "crossunit")
	}
	return c
}

func checkProf(c *profCase, o *vk.Obs) []string {
	var e vk.Errs
	factors := []float64{1, 1e3, 1e6, 1e9}
	var ps []*profile.Profile
	nt := len(c.Units[0])
	for i := range c.Units {
		p := &profile.Profile{PeriodType: &profile.ValueType{Type: "cpu", Unit: "nanoseconds"}, Period: 1}
		for j := 0; j < nt; j++ {
			p.SampleType = append(p.SampleType, &profile.ValueType{Type: fmt.Sprintf("t%d", j), Unit: timeSpell[c.Units[i][j]][c.Spell[i]]})
		}
		for _, vs := range c.Vals[i] {
			p.Sample = append(p.Sample, &profile.Sample{Value: append([]int64{}, vs...)})
		}
		ps = append(ps, p)
	}
	// expected physical totals per profile and type, and number of samples with any non-zero value
	type tot struct {
		sum []float64
		nz  int
	}
	var want []tot
	mixed := false
	for i := range ps {
		w := tot{sum: make([]float64, nt)}
		for _, vs := range c.Vals[i] {
			any := false
			for j, v := range vs {
				w.sum[j] += float64(v) * factors[c.Units[i][j]]
				if v != 0 {
					any = true
				}
			}
			if any {
				w.nz++
			}
		}
		want = append(want, w)
		for j := 0; j < nt; j++ {
			if c.Units[i][j] != c.Units[0][j] {
				mixed = true
			}
		}
	}
	o.LabelIf(mixed, "mixed-units")
	o.NonTrivial = mixed && len(ps) > 1
	if c.Cross != "" {
		// a time type against a memory or GCU type of the same name: no conversion exists, the profiles must
		// be refused rather than relabelled
		o.Label("cross-family")
		o.NonTrivial = true
		ps[len(ps)-1].SampleType[0].Unit = c.Cross
		before := fmt.Sprint(ps[len(ps)-1].Sample[:min(1, len(ps[len(ps)-1].Sample))])
		if err := measurement.ScaleProfiles(ps); err == nil {
			e.Addf("ScaleProfiles accepted type t0 in %q next to the same type in %q: units of different families were harmonised (now %q and %q, first sample %s -> %s)",
				timeSpell[c.Units[0][0]][c.Spell[0]], c.Cross, ps[0].SampleType[0].Unit, ps[len(ps)-1].SampleType[0].Unit, before, fmt.Sprint(ps[len(ps)-1].Sample[:min(1, len(ps[len(ps)-1].Sample))]))
		}
		return e
	}
	if err := measurement.ScaleProfiles(ps); err != nil {
		e.Addf("ScaleProfiles failed on convertible units: %v", err)
		return e
	}
	for j := 0; j < nt; j++ {
		// all profiles must now use one unit per type, the finest
		finest := 3
		for i := range ps {
			if c.Units[i][j] < finest {
				finest = c.Units[i][j]
			}
		}
		for i, p := range ps {
			_, u := measurement.Scale(1, p.SampleType[j].Unit, p.SampleType[j].Unit)
			fi, ui, ok := famOfCanon(u)
			if !ok || fi != 1 {
				e.Addf("profile %d type %d: unit %q after harmonisation is not a time unit", i, j, p.SampleType[j].Unit)
				continue
			}
			if len(ps) > 1 && ui != finest {
				e.Addf("profile %d type %d harmonised to %q; the finest unit among the inputs is %q (values would be rounded)", i, j, p.SampleType[j].Unit, families[1][finest].canon)
			}
			var sum float64
			for _, s := range p.Sample {
				sum += float64(s.Value[j]) * families[fi][ui].factor
			}
			if math.Abs(sum-want[i].sum[j]) > math.Abs(want[i].sum[j])*1e-12 {
				e.Addf("profile %d type %d: physical total changed from %v ns to %v ns", i, j, want[i].sum[j], sum)
			}
		}
	}
	for i, p := range ps {
		nz := 0
		for _, s := range p.Sample {
			for _, v := range s.Value {
				if v != 0 {
					nz++
					break
				}
			}
		}
		if nz != want[i].nz {
			e.Addf("profile %d: %d samples with a non-zero value before harmonising, %d after (a sample that is zero only in the rescaled columns was dropped)", i, want[i].nz, nz)
		}
	}
	return e
}

func TestPropProfiles(t *testing.T) {
	vk.Main(t, vk.Spec[profCase]{ID: "C15", Facet: "profiles", Quick: 10000, Thorough: 100000, Gen: genProf, Check: checkProf,
		Rule: "1..4 profiles x 1..3 sample types, each type in ns/us/ms/s under several spellings, values incl. zeros in some columns; oracle: after ScaleProfiles every profile uses the finest unit present, per-type physical totals are unchanged and no sample with a non-zero value disappears; non-trivial = units differ between profiles"})
}

// ---- facet report: the unit a report chooses for its numbers ----

type reportCase struct {
	From  spelled // unit of the sample type
	Vals  []int64 // one single-frame sample per entry (flat == cum)
	Mode  int     // 0 minimum (pprof's default), 1 auto, 2 explicit unit
	ToIdx int
	Div   int   // divide_by
	Dur   int64 // profile duration in nanoseconds (0: none); the header then relates the total to it
}

func genReport(t *rapid.T) *reportCase {
	c := &reportCase{From: spelling(t, "from"), Mode: rapid.IntRange(0, 2).Draw(t, "mode"), ToIdx: rapid.IntRange(0, 8).Draw(t, "toidx"), Div: rapid.SampledFrom([]int{1, 1, 1, 2, 3, 4, 7, 1000}).Draw(t, "divide_by"),
		Dur: rapid.OneOf(rapid.Just(int64(0)), rapid.Int64Range(1, 1e13), rapid.SampledFrom([]int64{1, 999, 1e9, 25e8, 49e5, 99e11 / 4, 36e11})).Draw(t, "duration")}
	n := rapid.IntRange(1, 5).Draw(t, "n")
	for i := 0; i < n; i++ {
		// mantissa x a step of the family, so that entries land in different natural units
		m := rapid.Int64Range(1, 999).Draw(t, "mant")
		step := rapid.SampledFrom([]int64{1, 1, 1000, 1024, 1000000, 1 << 20, 1000000000, 3600}).Draw(t, "step")
		v := m * step
		if rapid.Bool().Draw(t, "neg") {
			v = -v
		}
		c.Vals = append(c.Vals, v)
	}
	return c
}

func reportProfile(c *reportCase, sign int64) *profile.Profile {
	p := &profile.Profile{SampleType: []*profile.ValueType{{Type: "cpu", Unit: c.From.Text}}, PeriodType: &profile.ValueType{Type: "cpu", Unit: c.From.Text}, Period: 1}
	m := &profile.Mapping{ID: 1, Start: 0x400000, Limit: 0x500000, File: "/bin/app", HasFunctions: true}
	p.Mapping = []*profile.Mapping{m}
	p.DurationNanos = c.Dur
	for i, v := range c.Vals {
		f := &profile.Function{ID: uint64(i + 1), Name: fmt.Sprintf("fn%d", i), SystemName: fmt.Sprintf("fn%d", i), Filename: "a.go"}
		l := &profile.Location{ID: uint64(i + 1), Mapping: m, Address: 0x400100 + uint64(i)*16, Line: []profile.Line{{Function: f, Line: 1}}}
		p.Function = append(p.Function, f)
		p.Location = append(p.Location, l)
		p.Sample = append(p.Sample, &profile.Sample{Location: []*profile.Location{l}, Value: []int64{sign * v}})
	}
	return p
}

func checkReport(c *reportCase, o *vk.Obs) []string {
	var e vk.Errs
	fam := families[c.From.Fam]
	fu := fam[c.From.Idx]
	unitFlag := []string{"minimum", "auto", ""}[c.Mode]
	var explicit unit
	if c.Mode == 2 {
		explicit = fam[c.ToIdx%len(fam)]
		unitFlag = explicit.aliases[0]
	}
	o.Label("unit:" + []string{"minimum", "auto", "explicit"}[c.Mode])
	run := func(sign int64) (map[string]model.TopRow, string, []string) {
		res := pp.Run(pp.Req{Flags: map[string]string{"top": "true", "output": "out", "unit": unitFlag, "trim": "false", "nodecount": "0", "divide_by": fmt.Sprint(c.Div)}, Args: []string{"src"},
			Sources: map[string]*pp.Source{"src": {Prof: reportProfile(c, sign)}}})
		if res.Panic != "" {
			return nil, "", []string{"pprof panicked: " + res.Panic}
		}
		if res.Err != nil {
			return nil, "", []string{"pprof -top failed: " + res.Err.Error()}
		}
		_, rows, err := model.ParseTop(res.Out("out"))
		if err != nil {
			return nil, "", []string{"cannot parse -top: " + err.Error() + "\n" + res.Out("out")}
		}
		m := map[string]model.TopRow{}
		for _, r := range rows {
			m[r.Name] = r
		}
		return m, res.Out("out"), nil
	}
	rows, out, errs := run(1)
	if errs != nil {
		return errs
	}
	neg, _, errs := run(-1)
	if errs != nil {
		return errs
	}
	o.NonTrivial = len(c.Vals) >= 2
	// header: "Duration: D, Total samples = T (P%)" relates the total to the duration for time-valued profiles
	if c.Dur != 0 && c.From.Fam == 1 && c.Div == 1 {
		var totalNs float64
		for _, v := range c.Vals {
			totalNs += math.Abs(float64(v)) * fu.factor
		}
		if totalNs >= 9e18 {
			// the total does not fit an int64 number of nanoseconds: no representable answer
			o.Label("duration-total-beyond-int64")
			totalNs = -1
		}
		m := regexp.MustCompile(`Duration: [^\n]*Total samples = [^\n(]*\(\s*([0-9.e+-]+)%\)`).FindStringSubmatch(out)
		if totalNs < 0 {
			// skipped
		} else if m == nil {
			e.Addf("-top of a time-valued profile with a duration has no 'Duration: ..., Total samples = ... (P%%)' header:\n%.400s", out)
		} else {
			got, _ := strconv.ParseFloat(m[1], 64)
			want := 100 * totalNs / float64(c.Dur)
			tol := 0.0051
			switch {
			case m[1] == "100":
				want, tol = 100, 0.0501
			case want < 1:
				tol = want*0.051 + 1e-12 // two significant digits
			case want >= 1e6:
				tol = 0.0051 + want*1e-9
			}
			if math.Abs(got-want) > tol*1.0000001 {
				e.Addf("header says the total is %s%% of the duration; %v ns of samples over %d ns is %.6g%% (values %v %s)", m[1], totalNs, c.Dur, want, c.Vals, c.From.Text)
			}
			o.Label("duration-percentage")
		}
	}
	// smallest non-zero magnitude of the report, in base units of the family
	minMag := math.Inf(1)
	for _, v := range c.Vals {
		minMag = math.Min(minMag, math.Abs(float64(v))*fu.factor)
	}
	natural := func(mag float64) int { // index of the largest unit that keeps mag at or above one
		best := 0
		for i, u := range fam {
			if mag/u.factor >= 1 {
				best = i
			}
		}
		return best
	}
	units := map[string]bool{}
	for i, v := range c.Vals {
		name := fmt.Sprintf("fn%d", i)
		r, ok := rows[name]
		if !ok {
			e.Addf("entry %s (value %d %s) is missing from -top -unit=%s:\n%s", name, v, c.From.Text, unitFlag, out)
			continue
		}
		want := float64(v) * fu.factor / float64(c.Div)
		slack := 0.0
		if c.Div != 1 {
			slack = fu.factor // the quotient is rounded to a whole number of the sample unit
			o.Label("divide_by")
		}
		if r.FlatS != "0" {
			fi, ui, ok := famOfCanon(r.FlatUnit)
			if !ok || fi != c.From.Fam {
				e.Addf("-top -unit=%s prints %q for a value in %q: not a unit of the same family", unitFlag, r.FlatS, c.From.Text)
				continue
			}
			units[r.FlatUnit] = true
			f := fam[ui].factor
			if back := r.FlatF * f; math.Abs(back-want) > 0.005*f*1.0000001+math.Abs(want)*1e-12+slack {
				e.Addf("-top -unit=%s prints %q for %d %s: reads back as %v base units, original %v", unitFlag, r.FlatS, v, c.From.Text, back, want)
			}
			switch {
			case c.Div != 1:
				// unit laws are stated for the values themselves; with a divisor only read-back and symmetry
			case c.Mode == 1:
				if wantU := natural(math.Abs(want)); ui != wantU {
					e.Addf("-top -unit=auto prints %q for %d %s: the largest unit keeping the magnitude at or above one is %s", r.FlatS, v, c.From.Text, fam[wantU].canon)
				}
			case c.Mode == 2:
				if fam[ui].canon != explicit.canon {
					e.Addf("-top -unit=%s prints %q", unitFlag, r.FlatS)
				}
			}
		}
		// negation: the mirrored profile prints the mirrored numbers in the same units
		if nr, ok := neg[name]; !ok || strings.TrimPrefix(nr.FlatS, "-") != strings.TrimPrefix(r.FlatS, "-") || (r.FlatF != 0 && (nr.FlatF < 0) == (r.FlatF < 0)) {
			e.Addf("-top -unit=%s: %s prints %q for %d %s but %q for the negated profile", unitFlag, name, r.FlatS, v, c.From.Text, nr.FlatS)
		}
	}
	if c.Mode == 0 && c.Div == 1 && len(e) == 0 {
		// one unit for the whole report: the natural unit of its smallest non-zero magnitude
		if len(units) > 1 {
			e.Addf("-top -unit=minimum mixes units %v:\n%s", units, out)
		}
		// The report may go up to the natural unit of 100 x the smallest magnitude when the total is in a
		// larger unit (selectOutputUnit's documented refinement: "allowing minimum value to be scaled down
		// to 0.01"); it never goes below the natural unit of the smallest magnitude nor above that bracket.
		for u := range units {
			_, ui, _ := famOfCanon(u)
			if lo, hi := natural(minMag), natural(100*minMag); ui < lo || ui > hi {
				e.Addf("-top -unit=minimum reports in %s; the smallest magnitude of the report (%v base units) calls for a unit between %s and %s (values %v %s):\n%s", u, minMag, fam[lo].canon, fam[hi].canon, c.Vals, c.From.Text, out)
			}
		}
	}
	return e
}

func TestPropReport(t *testing.T) {
	vk.Main(t, vk.Spec[reportCase]{ID: "C15", Facet: "report", Quick: 3000, Thorough: 30000, Gen: genReport, Check: checkReport, Journal: true,
		Rule: "profiles of 1..5 single-frame entries whose values (mantissa 1..999 times a step of the unit family, either sign) are in a drawn spelling of a byte/time/GCU unit, printed by pprof -top with unit = minimum (default) / auto / an explicit unit of the family; oracle: every printed number reads back within display rounding of the value, units stay in the family, auto picks per entry the largest unit keeping the magnitude at or above one, minimum reports everything in one unit between the natural unit of the smallest non-zero magnitude and that of 100 times it, an explicit unit is honoured, and the negated profile prints the mirrored numbers in the same units (also under divide_by = 2, 3, 4, 7, 1000, where only read-back within one sample unit and the symmetry are asserted); non-trivial = at least two entries"})
}
