package c15

import (
	"fmt"
	"math/big"
	"strings"
	"testing"

	"github.com/google/pprof/profile"
	"github.com/google/pprof/xverif/pp"
	"github.com/google/pprof/xverif/vk"
	"pgregory.net/rapid"
)

// tagrange: unit conversion observed at one of its consumers, the numeric tag filters
// (-tagfocus=:64kb, key=1ms:2s, ...). A label is inside a range only when its unit is of the SAME family as
// the bound and its magnitude, converted by the exact ratio, lies within the bounds.

type tagLabel struct {
	Key  string
	Unit spelled
	Val  int64
}

type tagCase struct {
	Labels []tagLabel // one sample per entry; sample i carries value 1<<i
	Form   int        // 0 "N", 1 "N:", 2 ":N", 3 "N:M"
	Lo, Hi int64
	LoU    spelled
	HiU    spelled // same family as LoU
	Key    string  // "" = every numeric label is tried
	Ignore bool    // tagignore instead of tagfocus
}

func asciiSpelling(t *rapid.T, fam int, label string) spelled {
	idx := rapid.IntRange(0, len(families[fam])-1).Draw(t, label+"idx")
	var ok []string
	for _, a := range families[fam][idx].aliases {
		if a != "μs" {
			ok = append(ok, a)
		}
	}
	a := rapid.SampledFrom(ok).Draw(t, label+"alias")
	if rapid.Bool().Draw(t, label+"upper") {
		a = strings.ToUpper(a)
	}
	return spelled{fam, idx, a}
}

func genTag(t *rapid.T) *tagCase {
	c := &tagCase{Form: rapid.IntRange(0, 3).Draw(t, "form"), Ignore: rapid.IntRange(0, 3).Draw(t, "ignore") == 0}
	// one unit per key (pprof takes the unit of a key from the first sample that names one)
	keys := []string{"bytes", "latency", "cost", "size"}
	units := map[string]spelled{}
	for _, k := range keys {
		units[k] = spelling(t, "unit-"+k)
	}
	n := rapid.IntRange(1, 6).Draw(t, "n")
	for i := 0; i < n; i++ {
		k := rapid.SampledFrom(keys).Draw(t, "key")
		c.Labels = append(c.Labels, tagLabel{Key: k, Unit: units[k], Val: rapid.OneOf(rapid.Int64Range(0, 100), rapid.Int64Range(0, 1<<22), rapid.SampledFrom([]int64{0, 1, 63, 64, 65, 1000, 1024, 3600})).Draw(t, "val")})
	}
	fam := rapid.IntRange(0, len(families)-1).Draw(t, "boundfam")
	if rapid.Bool().Draw(t, "famoflabel") {
		fam = c.Labels[0].Unit.Fam
	}
	c.LoU, c.HiU = asciiSpelling(t, fam, "lo"), asciiSpelling(t, fam, "hi")
	c.Lo = rapid.OneOf(rapid.Int64Range(0, 100), rapid.Int64Range(0, 1<<20), rapid.SampledFrom([]int64{1, 64, 1000, 1024})).Draw(t, "lo")
	c.Hi = rapid.OneOf(rapid.Int64Range(0, 100), rapid.Int64Range(0, 1<<20), rapid.SampledFrom([]int64{1, 64, 1000, 1024})).Draw(t, "hi")
	if rapid.Bool().Draw(t, "bykey") {
		c.Key = rapid.SampledFrom(keys).Draw(t, "filterkey")
	}
	return c
}

func (c *tagCase) expr() string {
	lo, hi := fmt.Sprintf("%d%s", c.Lo, c.LoU.Text), fmt.Sprintf("%d%s", c.Hi, c.HiU.Text)
	e := []string{lo, lo + ":", ":" + hi, lo + ":" + hi}[c.Form]
	if c.Key != "" {
		e = c.Key + "=" + e
	}
	return e
}

// exact magnitude in the base unit of the family, as a rational
func exact(v int64, u spelled) *big.Rat {
	f := new(big.Rat)
	f.SetFloat64(families[u.Fam][u.Idx].factor) // factors are powers of 2 and 10: exact except the negative powers of ten
	if u.Fam == 2 {
		// GCU prefixes: exact decimal powers
		exp := []int{-9, -6, -3, 0, 3, 6, 9, 12, 15}[u.Idx]
		f.SetInt64(1)
		ten := big.NewRat(10, 1)
		for i := 0; i < exp; i++ {
			f.Mul(f, ten)
		}
		for i := 0; i > exp; i-- {
			f.Quo(f, ten)
		}
	}
	return f.Mul(f, new(big.Rat).SetInt64(v))
}

// cmp returns -1/0/+1, and near=true when the two magnitudes are within 1e-9 relative (float conversion
// cannot be asked to order those)
func cmp(a, b *big.Rat) (int, bool) {
	d := new(big.Rat).Sub(a, b)
	m := new(big.Rat).Abs(a)
	if mb := new(big.Rat).Abs(b); mb.Cmp(m) > 0 {
		m = mb
	}
	tol := new(big.Rat).Mul(m, big.NewRat(1, 1000000000))
	return d.Sign(), d.Sign() != 0 && new(big.Rat).Abs(d).Cmp(tol) <= 0
}

func checkTag(c *tagCase, o *vk.Obs) []string {
	var e vk.Errs
	p := &profile.Profile{SampleType: []*profile.ValueType{{Type: "samples", Unit: "count"}}, PeriodType: &profile.ValueType{Type: "cpu", Unit: "nanoseconds"}, Period: 1}
	m := &profile.Mapping{ID: 1, Start: 0x400000, Limit: 0x500000, File: "/bin/app", HasFunctions: true}
	p.Mapping = []*profile.Mapping{m}
	f := &profile.Function{ID: 1, Name: "main", SystemName: "main", Filename: "a.go"}
	l := &profile.Location{ID: 1, Mapping: m, Address: 0x400100, Line: []profile.Line{{Function: f, Line: 1}}}
	p.Function, p.Location = []*profile.Function{f}, []*profile.Location{l}
	for i, lb := range c.Labels {
		p.Sample = append(p.Sample, &profile.Sample{Location: []*profile.Location{l}, Value: []int64{1 << uint(i)},
			NumLabel: map[string][]int64{lb.Key: {lb.Val}}, NumUnit: map[string][]string{lb.Key: {lb.Unit.Text}}})
	}
	flag := "tagfocus"
	if c.Ignore {
		flag = "tagignore"
	}
	expr := c.expr()
	res := pp.Run(pp.Req{Flags: map[string]string{"proto": "true", "output": "out", flag: expr}, Args: []string{"src"}, Sources: map[string]*pp.Source{"src": {Prof: p}}})
	if res.Panic != "" {
		return []string{"pprof panicked: " + res.Panic}
	}
	var kept int64
	if res.Err != nil {
		// "no samples" style failures: nothing kept
		if !strings.Contains(res.Err.Error(), "no sample") && !strings.Contains(res.Err.Error(), "empty") {
			return []string{fmt.Sprintf("pprof -%s=%s failed: %v", flag, expr, res.Err)}
		}
	} else {
		q, err := profile.ParseData([]byte(res.Out("out")))
		if err != nil {
			return []string{"output does not parse: " + err.Error()}
		}
		for _, s := range q.Sample {
			kept |= s.Value[0]
		}
	}
	cross, inRange := false, false
	for i, lb := range c.Labels {
		if c.Key != "" && lb.Key != c.Key {
			if c.Ignore != (kept&(1<<uint(i)) != 0) {
				e.Addf("-%s=%s: sample %d has no label %q yet was %s", flag, expr, i, c.Key, map[bool]string{true: "dropped", false: "kept"}[c.Ignore])
			}
			continue
		}
		match, decided := false, true
		if lb.Unit.Fam != c.LoU.Fam {
			cross = true // another family: never inside the range
		} else {
			x := exact(lb.Val, lb.Unit)
			lo, hi := exact(c.Lo, c.LoU), exact(c.Hi, c.HiU)
			var sLo, sHi int
			var nLo, nHi bool
			sLo, nLo = cmp(x, lo)
			sHi, nHi = cmp(x, hi)
			// the GCU prefixes are negative powers of ten, which no float64 unit table can hold exactly: a label
			// that EQUALS a bound written with another prefix (1 microgcu against 1000nanogcu) is as undecidable
			// for float arithmetic as one within 1e-9 of it. Bytes and time units have whole-number factors.
			if lb.Unit.Fam == 2 {
				nLo = nLo || (sLo == 0 && lb.Unit.Idx != c.LoU.Idx)
				nHi = nHi || (sHi == 0 && lb.Unit.Idx != c.HiU.Idx)
			}
			switch c.Form {
			case 0:
				match, decided = sLo == 0, !nLo
			case 1:
				match, decided = sLo >= 0, !nLo
			case 2:
				match, decided = sHi <= 0, !nHi
			case 3:
				match, decided = sLo >= 0 && sHi <= 0, !nLo && !nHi
			}
		}
		if !decided {
			o.Label("within-1e-9-of-a-bound(not judged)")
			continue
		}
		inRange = inRange || match
		got := kept&(1<<uint(i)) != 0
		if want := match != c.Ignore; got != want {
			e.Addf("-%s=%s: sample %d labelled %s=%d %q (family %d) was %s; the bound is of family %d and the label is %s the range", flag, expr, i, lb.Key, lb.Val, lb.Unit.Text, lb.Unit.Fam,
				map[bool]string{true: "kept", false: "dropped"}[got], c.LoU.Fam, map[bool]string{true: "inside", false: "outside"}[match])
		}
	}
	o.Label([]string{"form:N", "form:N:", "form::M", "form:N:M"}[c.Form])
	o.LabelIf(cross, "label-of-another-family")
	o.LabelIf(inRange, "some-label-in-range")
	o.NonTrivial = cross || inRange
	return e
}

func TestPropTagRange(t *testing.T) {
	vk.Main(t, vk.Spec[tagCase]{ID: "C15", Facet: "tagrange", Quick: 1500, Thorough: 15000, Gen: genTag, Check: checkTag,
		Rule: "profiles of 1..6 samples each carrying one numeric label (keys bytes/latency/cost/size, one drawn unit spelling per key from the byte/time/GCU families) filtered by pprof -tagfocus / -tagignore with a numeric range N, N:, :M or N:M whose bounds are in drawn spellings of one family, with or without key=; oracle: exact rational comparison of the label's magnitude with the bounds in the base unit of the family, a label of another family is never inside the range (magnitudes within 1e-9 relative of a bound are not judged); observed through -proto; non-trivial = a label of another family than the bound, or a label inside the range"})
}
