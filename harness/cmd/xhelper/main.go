// xhelper is the child process of the crash-point and concurrency layers: it performs ONE settings
// operation through pprof's web handlers, optionally under RLIMIT_FSIZE=k so that the write is cut
// after exactly k bytes (either as a failing write, or - when SIGXFSZ is left at its default - by the
// process being killed in the middle of the write).
//
//	xhelper save   <query>            GET /saveconfig?<query>
//	xhelper delete <name>             GET /deleteconfig?config=<name>
//	xhelper tempfiles <dir> <n>       create n temp files concurrently with other helpers (C20)
//
// env: XHELPER_FSIZE=k (limit), XHELPER_IGNORE_XFSZ=1 (turn the kill into a write error),
// XHELPER_LOCKTHREAD=1 (pin the save to the main thread for syscall-granular kills under strace)
package main

import (
	"fmt"
	"net/url"
	"os"
	"os/signal"
	"runtime"
	"strconv"
	"syscall"

	"github.com/google/pprof/profile"
	"github.com/google/pprof/xverif/pp"
)

func tiny() *profile.Profile {
	f := &profile.Function{ID: 1, Name: "main", SystemName: "main", Filename: "main.go"}
	l := &profile.Location{ID: 1, Address: 0x10, Line: []profile.Line{{Function: f, Line: 1}}}
	return &profile.Profile{SampleType: []*profile.ValueType{{Type: "samples", Unit: "count"}}, PeriodType: &profile.ValueType{Type: "cpu", Unit: "nanoseconds"}, Period: 1,
		Function: []*profile.Function{f}, Location: []*profile.Location{l}, Sample: []*profile.Sample{{Location: []*profile.Location{l}, Value: []int64{1}}}}
}

func init() {
	// XHELPER_LOCKTHREAD: keep the main goroutine (which performs the save) on the main thread, so that a
	// tracer's per-thread syscall counter sees every system call of the save in order.
	if os.Getenv("XHELPER_LOCKTHREAD") != "" {
		runtime.LockOSThread()
	}
}

func main() {
	if len(os.Args) < 3 {
		os.Exit(2)
	}
	w, err := pp.StartWeb(pp.Req{Args: []string{"src"}, Sources: map[string]*pp.Source{"src": {Prof: tiny()}}})
	if err != nil {
		fmt.Fprintln(os.Stderr, "xhelper: web:", err)
		os.Exit(3)
	}
	if v := os.Getenv("XHELPER_FSIZE"); v != "" {
		k, _ := strconv.ParseUint(v, 10, 64)
		if os.Getenv("XHELPER_IGNORE_XFSZ") != "" {
			signal.Ignore(syscall.SIGXFSZ)
		} else {
			// the Go runtime swallows SIGXFSZ; restore what it means for an ordinary process: death in the
			// middle of the write
			ch := make(chan os.Signal, 1)
			signal.Notify(ch, syscall.SIGXFSZ)
			go func() {
				<-ch
				syscall.Kill(os.Getpid(), syscall.SIGKILL)
			}()
		}
		if err := syscall.Setrlimit(syscall.RLIMIT_FSIZE, &syscall.Rlimit{Cur: k, Max: k}); err != nil {
			fmt.Fprintln(os.Stderr, "xhelper: setrlimit:", err)
			os.Exit(3)
		}
	}
	var target string
	switch os.Args[1] {
	case "save":
		target = "/saveconfig?" + os.Args[2]
	case "delete":
		target = "/deleteconfig?config=" + url.QueryEscape(os.Args[2])
	default:
		os.Exit(2)
	}
	code, body, _, pan := w.Get(target)
	if pan != "" {
		fmt.Fprintln(os.Stderr, "xhelper: panic:", pan)
		os.Exit(4)
	}
	fmt.Fprintf(os.Stderr, "xhelper: %s -> %d %.100s\n", target, code, body)
	if code != 200 {
		os.Exit(1)
	}
	os.Exit(0)
}
