// xhelper20 tempfiles <n> <id>: fetches n remote profile sources concurrently in separate pprof runs, so that
// pprof saves each fetched profile as a new temporary file under PPROF_TMPDIR (C20 temp-file clause).
package main

import (
	"bytes"
	"fmt"
	"io"
	"net/http"
	"os"
	"strconv"
	"sync"

	"github.com/google/pprof/profile"
	"github.com/google/pprof/xverif/pp"
)

type rt struct{ tag string }

func (r rt) RoundTrip(req *http.Request) (*http.Response, error) {
	f := &profile.Function{ID: 1, Name: "main", SystemName: "main"}
	l := &profile.Location{ID: 1, Address: 0x10, Line: []profile.Line{{Function: f, Line: 1}}}
	p := &profile.Profile{SampleType: []*profile.ValueType{{Type: "samples", Unit: "count"}}, PeriodType: &profile.ValueType{Type: "cpu", Unit: "nanoseconds"}, Period: 1,
		Function: []*profile.Function{f}, Location: []*profile.Location{l}, Sample: []*profile.Sample{{Location: []*profile.Location{l}, Value: []int64{1}}},
		Comments: []string{r.tag + req.URL.Path}}
	var b bytes.Buffer
	p.Write(&b)
	return &http.Response{StatusCode: 200, Status: "200 OK", Body: io.NopCloser(&b), Header: http.Header{}, Request: req}, nil
}

// messages: xhelper20 messages <n>: n sources that all fail, fetched in parallel with pprof's own message
// printer (stderr); the parent checks that every line arrives whole.
func messages(n int) {
	var args []string
	for i := 0; i < n; i++ {
		args = append(args, fmt.Sprintf("http://remote.example/profile-number-%03d-abcdefghijklmnopqrstuvwxyz0123456789ABCDEFGHIJKLMNOPQRSTUVWXYZ", i))
	}
	// every fetch goroutine announces its source ("Fetching profile over HTTP from ...") before fetching
	pp.RunNoCapture(pp.Req{Flags: map[string]string{"top": "true", "output": "out"}, Args: args, NoFetch: true, RT: rt{"m"}, StdUI: true})
}

func main() {
	if len(os.Args) >= 3 && os.Args[1] == "messages" {
		n, _ := strconv.Atoi(os.Args[2])
		messages(n)
		return
	}
	if len(os.Args) < 4 || os.Args[1] != "tempfiles" {
		os.Exit(2)
	}
	n, _ := strconv.Atoi(os.Args[2])
	id := os.Args[3]
	var wg sync.WaitGroup
	fail := false
	for i := 0; i < n; i++ {
		wg.Add(1)
		go func(i int) {
			defer wg.Done()
			// the driver keeps its configuration in process globals; separate runs in one process are what
			// a long-lived embedding does, and the temp-file naming is what is under test
			res := pp.RunNoCapture(pp.Req{Flags: map[string]string{"proto": "true", "output": "out"}, Args: []string{fmt.Sprintf("http://remote.example/p%s_%d", id, i)}, NoFetch: true, RT: rt{"w" + id}})
			if res.Err != nil || res.Panic != "" {
				fmt.Fprintln(os.Stderr, "xhelper20:", res.Err, res.Panic)
				fail = true
			}
		}(i)
	}
	wg.Wait()
	if fail {
		os.Exit(1)
	}
}
