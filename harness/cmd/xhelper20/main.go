// xhelper20 tempfiles <n> <id>: fetches n remote profile sources concurrently in separate pprof runs, so that
// pprof saves each fetched profile as a new temporary file under PPROF_TMPDIR (C20 temp-file clause).
package main

import (
	"bytes"
	"fmt"
	"io"
	"net/http"
	"os"
	"strconv"
	"strings"
	"sync"

	"github.com/google/pprof/internal/driver"
	"github.com/google/pprof/profile"
	"github.com/google/pprof/xverif/pp"
)

type rt struct{ tag string }

func (r rt) RoundTrip(req *http.Request) (*http.Response, error) {
	f := &profile.Function{ID: 1, Name: "main", SystemName: "main"}
	l := &profile.Location{ID: 1, Address: 0x10, Line: []profile.Line{{Function: f, Line: 1}}}
	p := &profile.Profile{SampleType: []*profile.ValueType{{Type: "samples", Unit: "count"}}, PeriodType: &profile.ValueType{Type: "cpu", Unit: "nanoseconds"}, Period: 1,
		Function: []*profile.Function{f}, Location: []*profile.Location{l}, Sample: []*profile.Sample{{Location: []*profile.Location{l}, Value: []int64{1}}},
		Comments: []string{r.tag + req.URL.Path}}
	var b bytes.Buffer
	p.Write(&b)
	return &http.Response{StatusCode: 200, Status: "200 OK", Body: io.NopCloser(&b), Header: http.Header{}, Request: req}, nil
}

// messages: xhelper20 messages <n>: n sources that all fail, fetched in parallel with pprof's own message
// printer (stderr); the parent checks that every line arrives whole.
func messages(n int) {
	var args []string
	for i := 0; i < n; i++ {
		args = append(args, fmt.Sprintf("http://remote.example/profile-number-%03d-abcdefghijklmnopqrstuvwxyz0123456789ABCDEFGHIJKLMNOPQRSTUVWXYZ", i))
	}
	// every fetch goroutine announces its source ("Fetching profile over HTTP from ...") before fetching
	pp.RunNoCapture(pp.Req{Flags: map[string]string{"top": "true", "output": "out"}, Args: args, NoFetch: true, RT: rt{"m"}, StdUI: true})
}

// options: xhelper20 options <setters> <mode> <rounds>: ONE interactive session lists the options ("o", a pure read
// of the option store) and prints a report while <setters> goroutines set option defaults through the
// extension entry point driver.SetVariableDefault (mode 0: granularity=<choice>, 1: <choice>=true, 2: mixed with
// nodecount and focus). Built with the race detector; stdout carries the listings.
func options(setters, mode, rounds int) {
	f := &profile.Function{ID: 1, Name: "main", SystemName: "main", Filename: "main.go"}
	l := &profile.Location{ID: 1, Address: 0x10, Line: []profile.Line{{Function: f, Line: 7}}}
	p := &profile.Profile{SampleType: []*profile.ValueType{{Type: "samples", Unit: "count"}}, PeriodType: &profile.ValueType{Type: "cpu", Unit: "nanoseconds"}, Period: 1,
		Function: []*profile.Function{f}, Location: []*profile.Location{l}, Sample: []*profile.Sample{{Location: []*profile.Location{l}, Value: []int64{1}}}}
	choices := []string{"lines", "functions", "files", "addresses", "filefunctions"}
	var wg sync.WaitGroup
	start, done := make(chan struct{}), make(chan struct{})
	for i := 0; i < setters; i++ {
		wg.Add(1)
		go func(i int) {
			defer wg.Done()
			<-start
			for r := 0; ; r++ {
				if r >= rounds {
					select {
					case <-done:
						return
					default:
					}
				}
				c := choices[(i+r)%len(choices)]
				switch {
				case mode == 0 || (mode == 2 && r%3 == 0):
					driver.SetVariableDefault("granularity", c)
				case mode == 1 || (mode == 2 && r%3 == 1):
					driver.SetVariableDefault(c, "true")
				default:
					driver.SetVariableDefault("nodecount", fmt.Sprint(10+r%5))
					driver.SetVariableDefault("focus", []string{"main", "ma.n", ""}[r%3])
				}
			}
		}(i)
	}
	close(start)
	res := pp.RunNoCapture(pp.Req{Args: []string{"src"}, Sources: map[string]*pp.Source{"src": {Prof: p}}, Lines: []string{"o", "o", "top >out", "o"}})
	close(done)
	wg.Wait()
	prints, _ := res.UI.Snapshot()
	fmt.Printf("%s\n==== report\n%s\n", strings.Join(prints, ""), res.Out("out"))
	if res.Err != nil || res.Panic != "" {
		fmt.Fprintln(os.Stderr, "xhelper20: session:", res.Err, res.Panic)
		os.Exit(1)
	}
}

func main() {
	if len(os.Args) >= 4 && os.Args[1] == "options" {
		n, _ := strconv.Atoi(os.Args[2])
		m, _ := strconv.Atoi(os.Args[3])
		r := 20
		if len(os.Args) >= 5 {
			r, _ = strconv.Atoi(os.Args[4])
		}
		options(n, m, r)
		return
	}
	if len(os.Args) >= 3 && os.Args[1] == "messages" {
		n, _ := strconv.Atoi(os.Args[2])
		messages(n)
		return
	}
	if len(os.Args) < 4 || os.Args[1] != "tempfiles" {
		os.Exit(2)
	}
	n, _ := strconv.Atoi(os.Args[2])
	id := os.Args[3]
	var wg sync.WaitGroup
	fail := false
	for i := 0; i < n; i++ {
		wg.Add(1)
		go func(i int) {
			defer wg.Done()
			// the driver keeps its configuration in process globals; separate runs in one process are what
			// a long-lived embedding does, and the temp-file naming is what is under test
			res := pp.RunNoCapture(pp.Req{Flags: map[string]string{"proto": "true", "output": "out"}, Args: []string{fmt.Sprintf("http://remote.example/p%s_%d", id, i)}, NoFetch: true, RT: rt{"w" + id}})
			if res.Err != nil || res.Panic != "" {
				fmt.Fprintln(os.Stderr, "xhelper20:", res.Err, res.Panic)
				fail = true
			}
		}(i)
	}
	wg.Wait()
	if fail {
		os.Exit(1)
	}
}
