// xsession runs one scripted interactive pprof session in a process of its own (C10: the reference that
// process-global state left behind by earlier sessions cannot contaminate).
//
//	stdin:  JSON {"Prof": <uncompressed profile.proto bytes>, "Lines": [...]}
//	stdout: JSON sess.Out
package main

import (
	"encoding/json"
	"fmt"
	"io"
	"os"

	"github.com/google/pprof/profile"
	"github.com/google/pprof/xverif/sess"
)

func main() {
	var in struct {
		Prof  []byte
		Lines []string
	}
	data, err := io.ReadAll(os.Stdin)
	if err == nil {
		err = json.Unmarshal(data, &in)
	}
	if err != nil {
		fmt.Fprintln(os.Stderr, "xsession:", err)
		os.Exit(2)
	}
	p, err := profile.ParseUncompressed(in.Prof)
	if err != nil {
		fmt.Fprintln(os.Stderr, "xsession: profile:", err)
		os.Exit(2)
	}
	real := os.Stdout
	out := sess.Run(p, in.Lines)
	json.NewEncoder(real).Encode(out)
}
