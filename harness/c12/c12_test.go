package c12

import (
	"bytes"
	"fmt"
	"io"
	"net/http"
	"regexp"
	"strings"
	"testing"

	"github.com/google/pprof/internal/plugin"
	"github.com/google/pprof/internal/symbolizer"
	"github.com/google/pprof/profile"
	"github.com/google/pprof/xverif/gen"
	"github.com/google/pprof/xverif/model"
	"github.com/google/pprof/xverif/pp"
	"github.com/google/pprof/xverif/vk"
	"pgregory.net/rapid"
)

type symCase struct {
	P       *gen.Prof
	Mode    string
	Open    []int // behaviour of the n-th ObjTool.Open call
	Line    []int // behaviour selector of SourceLine, indexed by address hash
	HTTP    []int // behaviour of the n-th symbolz request
	Sources int   // 0 none, 1 by file, 2 by build id, 3 both
	SrcOff  int   // mapping source start differs from the mapping start by this many pages
	Names   []int // indexes into namePool used by answers
	Driver  bool  // go through pprof -symbolize=... -proto instead of calling the symbolizer directly
}

var namePool = []string{"f1", "_ZN3foo3barEv", "<x>", "ns::T<int>::m(int)", "a<b>", "operator<", "<lambda>", "T<>", "main.go.func1", "java.Class.<init>", "x::y(z)", "", "(anonymous namespace)::f", "<unknown>", "std::vector<int, std::allocator<int> >::push_back", "(std::thread::entry)", "(lambda at a.cc:3::operator())", "[abi:cxx11]", "(x)", "()", "<>", "[]", "(a::b)<c>"}

var modes = []string{"", "none", "local", "fastlocal", "remote", "force", "local:force", "remote:force", "demangle=full", "demangle=none", "demangle=templates", "demangle=default", "local:demangle=none", "junk", "fastlocal:force:demangle=templates", "LOCAL"}

var opts = gen.Opts{Alpha: gen.Plain, MaxSamples: 6, MaxDepth: 4, MaxLines: 3, MinTypes: 1, MaxTypes: 2, AnyIDs: true, Unused: true, Labels: true, NumLabels: true,
	EmptyStacks: true, NoMapping: true, Unsym: true, Columns: true, NearDup: true}

func genCase(t *rapid.T) *symCase {
	p := gen.Profile(t, opts)
	// some functions carry names that demangling heuristics touch
	for i := range p.Functions {
		if rapid.IntRange(0, 2).Draw(t, "rename") == 0 {
			n := rapid.SampledFrom(namePool).Draw(t, "fname")
			p.Functions[i].Name = n
			switch rapid.IntRange(0, 2).Draw(t, "sys") {
			case 0:
				p.Functions[i].SystemName = n
			case 1:
				p.Functions[i].SystemName = ""
			default:
				p.Functions[i].SystemName = "_Z" + n
			}
		}
	}
	// more unsymbolized locations, mapping files that look like urls / system mappings
	for i := range p.Locations {
		if rapid.IntRange(0, 1).Draw(t, "strip") == 0 {
			p.Locations[i].Lines = nil
		}
	}
	for i := range p.Mappings {
		if rapid.IntRange(0, 2).Draw(t, "unsymbolized") != 0 {
			m := &p.Mappings[i]
			m.HasFunctions, m.HasFilenames, m.HasLineNumbers, m.HasInlineFrames = false, false, false, false
			if m.File == "" {
				m.File = "/bin/app"
			}
		}
		if rapid.IntRange(0, 5).Draw(t, "weirdfile") == 0 {
			p.Mappings[i].File = rapid.SampledFrom([]string{"", "[vdso]", "http://host/debug/pprof/profile", "//anon", "/dev/dri/card0"}).Draw(t, "mfile")
		}
		if rapid.IntRange(0, 7).Draw(t, "placeholder") == 0 {
			// a placeholder mapping as some producers write it: a file name but no address range
			p.Mappings[i].Start, p.Mappings[i].Limit = rapid.SampledFrom([][2]uint64{{0, 0}, {0x400000, 0}, {0, 1<<64 - 1}}).Draw(t, "phrange")[0], 0
			if rapid.Bool().Draw(t, "phmax") {
				p.Mappings[i].Limit = 1<<64 - 1
			}
		}
	}
	// two binaries loaded at the same base (a profile merged from different processes): locations of
	// different mappings share an address
	if len(p.Mappings) >= 2 && rapid.IntRange(0, 2).Draw(t, "overlap") == 0 {
		i, j := 0, 1+rapid.IntRange(0, len(p.Mappings)-2).Draw(t, "overlapj")
		oldStart := p.Mappings[j].Start
		p.Mappings[j].Start, p.Mappings[j].Limit = p.Mappings[i].Start, p.Mappings[i].Start+(p.Mappings[j].Limit-oldStart)
		var ai []uint64
		for k := range p.Locations {
			if p.Locations[k].Map == j {
				p.Locations[k].Address = p.Mappings[i].Start + (p.Locations[k].Address - oldStart)
			}
			if p.Locations[k].Map == i {
				ai = append(ai, p.Locations[k].Address)
			}
		}
		if len(ai) > 0 {
			for k := range p.Locations {
				if p.Locations[k].Map == j && rapid.Bool().Draw(t, "sameaddr") {
					p.Locations[k].Address = rapid.SampledFrom(ai).Draw(t, "addr")
				}
			}
		}
	}
	c := &symCase{P: p, Mode: rapid.SampledFrom(modes).Draw(t, "mode"), Sources: rapid.IntRange(0, 3).Draw(t, "sources"), SrcOff: rapid.IntRange(0, 2).Draw(t, "srcoff"),
		Driver: rapid.IntRange(0, 4).Draw(t, "driver") == 0}
	c.Open = rapid.SliceOfN(rapid.IntRange(0, 3), 2, 6).Draw(t, "open")
	c.Line = rapid.SliceOfN(rapid.IntRange(0, 7), 1, 8).Draw(t, "line")
	c.HTTP = rapid.SliceOfN(rapid.IntRange(0, 7), 2, 6).Draw(t, "http")
	c.Names = rapid.SliceOfN(rapid.IntRange(0, len(namePool)-1), 1, 6).Draw(t, "names")
	return c
}

// ---- scripted plug-ins ----

type stats struct {
	opens, openFail, lineCalls, lineFail, httpCalls, httpFail int
}

type objTool struct {
	c  *symCase
	n  int
	st *stats
}

func (o *objTool) Open(file string, start, limit, offset uint64, reloc string) (plugin.ObjFile, error) {
	b := 0
	if o.n < len(o.c.Open) {
		b = o.c.Open[o.n]
	}
	o.n++
	o.st.opens++
	switch b {
	case 1:
		o.st.openFail++
		return nil, fmt.Errorf("scripted: cannot open %s", file)
	case 2:
		return &objFile{c: o.c, st: o.st, buildID: "mismatch-0000"}, nil
	}
	return &objFile{c: o.c, st: o.st}, nil
}

func (o *objTool) Disasm(file string, start, end uint64, intel bool) ([]plugin.Inst, error) {
	return nil, fmt.Errorf("scripted: no disassembler")
}

type objFile struct {
	c       *symCase
	st      *stats
	buildID string
}

func (f *objFile) Name() string                        { return "scripted" }
func (f *objFile) ObjAddr(addr uint64) (uint64, error) { return addr, nil }
func (f *objFile) BuildID() string                     { return f.buildID }
func (f *objFile) Close() error                        { return nil }
func (f *objFile) Symbols(r *regexp.Regexp, addr uint64) ([]*plugin.Sym, error) {
	return nil, fmt.Errorf("scripted: no symbols")
}

func (f *objFile) SourceLine(addr uint64) ([]plugin.Frame, error) {
	f.st.lineCalls++
	b := f.c.Line[int(addr%uint64(len(f.c.Line)))]
	name := func(i int) string { return namePool[f.c.Names[(int(addr)+i)%len(f.c.Names)]] }
	switch b {
	case 0:
		f.st.lineFail++
		return nil, fmt.Errorf("scripted: addr2line failed")
	case 1:
		return nil, nil
	case 2:
		return []plugin.Frame{{Func: name(0), File: "a.c", Line: 7, Column: 3, StartLine: 1}}, nil
	case 3:
		return []plugin.Frame{{Func: name(0), File: "", Line: 0}, {Func: name(1), File: "b.c", Line: 9}}, nil
	case 4:
		return []plugin.Frame{{}}, nil
	case 5:
		return []plugin.Frame{{Func: name(0)}, {Func: name(1)}, {Func: name(2), File: "c.c", Line: 1}}, nil
	case 6:
		return []plugin.Frame{{Func: "", File: "only.c", Line: 3}}, nil
	}
	return []plugin.Frame{{Func: name(0), File: "a.c", Line: 7}}, nil
}

type roundTripper struct {
	c  *symCase
	n  int
	st *stats
}

func (r *roundTripper) RoundTrip(req *http.Request) (*http.Response, error) {
	b := 0
	if r.n < len(r.c.HTTP) {
		b = r.c.HTTP[r.n]
	}
	r.n++
	r.st.httpCalls++
	body, _ := io.ReadAll(req.Body)
	addrs := strings.Split(string(body), "+")
	var out bytes.Buffer
	status := 200
	name := func(i int) string { return namePool[r.c.Names[i%len(r.c.Names)]] }
	switch b {
	case 1: // partial
		for i, a := range addrs {
			if i%2 == 0 {
				fmt.Fprintf(&out, "%s %s\n", a, name(i))
			}
		}
	case 2: // addresses nobody asked for
		fmt.Fprintf(&out, "0x1 stray\n0xdeadbeef stray2\n")
		for i, a := range addrs {
			fmt.Fprintf(&out, "%s %s\n", a, name(i))
		}
	case 3:
		out.WriteString("<html>garbage</html>\nnot a symbol line\n0xzz q\n")
	case 4:
		status = 500
		r.st.httpFail++
	case 5:
		r.st.httpFail++
		return nil, fmt.Errorf("scripted: connection refused")
	case 6: // overflowing / huge addresses
		fmt.Fprintf(&out, "0xffffffffffffffff big\n0xfffffffffffffffff toobig\n0x0 zero\n")
	case 7: // no trailing newline on the last line, empty names
		for i, a := range addrs {
			fmt.Fprintf(&out, "%s \n", a)
			if i == len(addrs)-1 {
				fmt.Fprintf(&out, "%s last", a)
			}
		}
	default:
		for i, a := range addrs {
			fmt.Fprintf(&out, "%s %s\n", a, name(i))
		}
	}
	return &http.Response{StatusCode: status, Status: fmt.Sprintf("%d scripted", status), Body: io.NopCloser(&out), Header: http.Header{}, Request: req}, nil
}

// ---- snapshot of what symbolization must not touch ----

type before struct {
	samples []string
	locs    []*profile.Location
	addrs   []uint64
	maps    []string
	symd    map[*profile.Location]string // lines of locations in already symbolized mappings
	named   map[*profile.Function]bool
	nlines  map[*profile.Location]int
	nSample int
}

func lineSig(l *profile.Location) string {
	var s []string
	for _, ln := range l.Line {
		if ln.Function == nil {
			s = append(s, "nil")
			continue
		}
		s = append(s, fmt.Sprintf("%q|%q|%d", ln.Function.SystemName, ln.Function.Filename, ln.Line))
	}
	return strings.Join(s, ";")
}

func check(c *symCase, o *vk.Obs) []string {
	var e vk.Errs
	p := c.P.Build().Copy()
	if err := model.Valid(p); err != nil {
		return nil
	}
	st := &stats{}
	ui := &pp.UI{}
	force := false
	for _, opt := range strings.Split(strings.ToLower(c.Mode), ":") {
		if opt == "force" || opt == "demangle=full" || opt == "demangle=none" || opt == "demangle=templates" {
			force = true
		}
	}
	// mapping sources
	srcs := plugin.MappingSources{}
	for _, m := range p.Mapping {
		add := func(k string) {
			if k == "" {
				return
			}
			srcs[k] = append(srcs[k], struct {
				Source string
				Start  uint64
			}{"http://host.example/debug/pprof/profile", m.Start + uint64(c.SrcOff)*0x1000})
		}
		if c.Sources&1 != 0 {
			add(m.File)
		}
		if c.Sources&2 != 0 {
			add(m.BuildID)
		}
	}
	b := before{symd: map[*profile.Location]string{}, named: map[*profile.Function]bool{}, nlines: map[*profile.Location]int{}, nSample: len(p.Sample)}
	for _, s := range p.Sample {
		var ids []string
		for _, l := range s.Location {
			ids = append(ids, fmt.Sprintf("%p", l))
		}
		b.samples = append(b.samples, fmt.Sprintf("%v %s [%s]", s.Value, model.LabelString(s, false), strings.Join(ids, " ")))
	}
	for _, l := range p.Location {
		b.locs = append(b.locs, l)
		b.addrs = append(b.addrs, l.Address)
		b.nlines[l] = len(l.Line)
		if l.Mapping != nil && l.Mapping.HasFunctions {
			b.symd[l] = lineSig(l)
		}
	}
	for _, m := range p.Mapping {
		b.maps = append(b.maps, fmt.Sprintf("%x-%x@%x", m.Start, m.Limit, m.Offset))
	}
	for _, f := range p.Function {
		if f.Name != "" {
			b.named[f] = true
		}
	}
	unsym := 0
	for _, l := range p.Location {
		if len(l.Line) == 0 {
			unsym++
		}
	}
	var serr error
	if pan := vk.Safely(func() {
		s := &symbolizer.Symbolizer{Obj: &objTool{c: c, st: st}, UI: ui, Transport: &roundTripper{c: c, st: st}}
		serr = s.Symbolize(c.Mode, srcs, p)
	}); pan != "" {
		return []string{fmt.Sprintf("Symbolize(%q) panicked: %s", c.Mode, pan)}
	}
	o.Label("mode:" + c.Mode)
	o.LabelIf(serr != nil, "returned-error")
	o.LabelIf(st.openFail+st.lineFail+st.httpFail > 0, "plugin-failure")
	gained := 0
	for _, l := range p.Location {
		if len(l.Line) > 0 {
			gained++
		}
	}
	gained -= len(p.Location) - unsym
	o.LabelIf(gained > 0, "gained-lines")
	o.LabelIf(st.httpCalls > 0, "symbolz-used")
	o.LabelIf(st.opens > 0, "local-used")
	o.NonTrivial = gained > 0 && st.openFail+st.lineFail+st.httpFail > 0

	// frame conditions
	if len(p.Sample) != b.nSample {
		e.Addf("number of samples changed from %d to %d", b.nSample, len(p.Sample))
	} else {
		for i, s := range p.Sample {
			var ids []string
			for _, l := range s.Location {
				ids = append(ids, fmt.Sprintf("%p", l))
			}
			if got := fmt.Sprintf("%v %s [%s]", s.Value, model.LabelString(s, false), strings.Join(ids, " ")); got != b.samples[i] {
				e.Addf("sample %d changed: values/labels/stack were %s, now %s", i, b.samples[i], got)
			}
		}
	}
	if len(p.Location) != len(b.locs) {
		e.Addf("number of locations changed from %d to %d", len(b.locs), len(p.Location))
	} else {
		for i, l := range p.Location {
			if l != b.locs[i] || l.Address != b.addrs[i] {
				e.Addf("location %d: identity or address changed (%#x -> %#x)", i, b.addrs[i], l.Address)
			}
		}
	}
	for i, m := range p.Mapping {
		if i < len(b.maps) && fmt.Sprintf("%x-%x@%x", m.Start, m.Limit, m.Offset) != b.maps[i] {
			e.Addf("mapping %d range changed from %s to %x-%x@%x", i, b.maps[i], m.Start, m.Limit, m.Offset)
		}
	}
	if len(p.Mapping) != len(b.maps) {
		e.Addf("number of mappings changed")
	}
	if verr := model.Valid(p); verr != nil {
		e.Addf("profile is not valid after Symbolize(%q) (error returned: %v): %v", c.Mode, serr, verr)
	}
	if !force {
		for l, sig := range b.symd {
			if got := lineSig(l); got != sig {
				e.Addf("location %#x belongs to a mapping that already had symbols and force was not requested, yet its lines changed from %s to %s (mode %q)", l.Address, sig, got, c.Mode)
			}
		}
	}
	for l, n := range b.nlines {
		if n > 0 && len(l.Line) == 0 {
			e.Addf("location %#x had %d lines before symbolization and none afterwards (mode %q): information was removed, not added", l.Address, n, c.Mode)
		}
	}
	for _, f := range p.Function {
		if b.named[f] && f.Name == "" {
			e.Addf("function %d (system name %q) had a non-empty name that was replaced by an empty one (mode %q)", f.ID, f.SystemName, c.Mode)
		}
	}
	return e
}

// checkDriver runs the same scripted plug-ins underneath pprof -symbolize=<mode> -proto.
func checkDriver(c *symCase, o *vk.Obs) []string {
	var e vk.Errs
	p := c.P.Build().Copy()
	st := &stats{}
	o.Label("driver")
	o.Label("mode:" + c.Mode)
	fe := &pp.Fetcher{Srcs: map[string]*pp.Source{"src": {Prof: p}}}
	if c.Sources != 0 {
		fe.URL = func(string) string { return "http://pproftest.local/debug/pprof/profile" }
	}
	res := pp.Run(pp.Req{Flags: map[string]string{"proto": "true", "output": "out", "symbolize": c.Mode}, Args: []string{"src"}, Fetcher: fe,
		Obj: &objTool{c: c, st: st}, RT: &roundTripper{c: c, st: st}, DefaultSym: true})
	if res.Panic != "" {
		return []string{"pprof panicked: " + res.Panic}
	}
	o.LabelIf(st.openFail+st.lineFail+st.httpFail > 0, "plugin-failure")
	o.LabelIf(st.httpCalls > 0, "symbolz-used")
	o.LabelIf(st.opens > 0, "local-used")
	if res.Err != nil {
		o.Label("returned-error")
		return nil // output or error
	}
	out, err := profile.ParseData([]byte(res.Out("out")))
	if err != nil {
		e.Addf("pprof -symbolize=%s -proto wrote a profile that does not parse: %v", c.Mode, err)
		return e
	}
	o.NonTrivial = st.opens+st.httpCalls > 0
	if len(out.Sample) != len(p.Sample) {
		e.Addf("-symbolize=%s: %d samples in, %d out", c.Mode, len(p.Sample), len(out.Sample))
		return e
	}
	for i, s := range out.Sample {
		os := p.Sample[i]
		if fmt.Sprint(s.Value) != fmt.Sprint(os.Value) || model.LabelString(s, true) != model.LabelString(os, true) {
			e.Addf("-symbolize=%s sample %d: values/labels changed", c.Mode, i)
		}
		var a, b []uint64
		for _, l := range s.Location {
			a = append(a, l.Address)
		}
		for _, l := range os.Location {
			b = append(b, l.Address)
		}
		if fmt.Sprint(a) != fmt.Sprint(b) {
			e.Addf("-symbolize=%s sample %d: stack addresses changed from %x to %x", c.Mode, i, b, a)
		}
	}
	return e
}

func TestPropSymbolize(t *testing.T) {
	vk.Main(t, vk.Spec[symCase]{ID: "C12", Facet: "symbolize", Quick: 20000, Thorough: 120000, Gen: genCase, Journal: true,
		Check: func(c *symCase, o *vk.Obs) []string {
			if c.Driver {
				return checkDriver(c, o)
			}
			return check(c, o)
		},
		Rule: "generated profiles (partly symbolized, dense/permuted/sparse/huge function ids, several mappings incl. fake, url-named and unsymbolizable ones, unused entities, names that the demangling heuristics touch: <x>, a<b>, operator<, T<>, ...) x 16 symbolization mode strings x fault scripts for the object-file plug-in (per Open call: ok / error / build-id mismatch; per SourceLine: error, no answer, 1..3 frames with empty function/file/line) and for the symbol service (good, partial, stray addresses, garbage, HTTP 500, transport error, overflowing addresses, empty names) x mapping sources by file/build id with shifted starts; oracle: frame condition (sample count, values, labels, per-sample location identity and order, addresses, mapping ranges), validity predicate V with or without an error, already-symbolized mappings untouched unless forced, no non-empty name becomes empty; non-trivial = a location gained lines and a plug-in call failed"})
}
