package c19

import (
	"encoding/json"
	"fmt"
	"html"
	"net/url"
	"os"
	"os/exec"
	"path/filepath"
	"regexp"
	"sort"
	"strconv"
	"strings"
	"sync"
	"testing"
	"time"

	"github.com/google/pprof/profile"
	"github.com/google/pprof/xverif/pp"
	"github.com/google/pprof/xverif/vk"
	"pgregory.net/rapid"
)

// ---- the documented option table (name in settings.json, URL parameter, type, default) ----

type opt struct {
	json, param, typ, def string
}

var options = []opt{
	{"call_tree", "calltree", "bool", "false"}, {"relative_percentages", "rel", "bool", "false"}, {"unit", "unit", "string", "minimum"},
	{"compact_labels", "compact", "bool", "false"}, {"intel_syntax", "intel", "bool", "false"}, {"mean", "mean", "bool", "false"}, {"normalize", "norm", "bool", "false"},
	{"sort", "sort", "choice:cum,flat", "flat"}, {"tagroot", "", "string", ""}, {"tagleaf", "", "string", ""}, {"drop_negative", "dropneg", "bool", "false"},
	{"nodecount", "n", "int", "-1"}, {"nodefraction", "nf", "float", "0.005"}, {"edgefraction", "ef", "float", "0.001"}, {"trim", "trim", "bool", "true"},
	{"focus", "f", "string", ""}, {"ignore", "i", "string", ""}, {"prune_from", "prunefrom", "string", ""}, {"hide", "h", "string", ""}, {"show", "s", "string", ""},
	{"show_from", "sf", "string", ""}, {"tagfocus", "tf", "string", ""}, {"tagignore", "ti", "string", ""}, {"tagshow", "ts", "string", ""}, {"taghide", "th", "string", ""},
	{"noinlines", "noinlines", "bool", "false"}, {"showcolumns", "showcolumns", "bool", "false"}, {"granularity", "g", "choice:functions,filefunctions,files,lines,addresses", ""},
}

func parseBool(s string) (bool, bool) {
	switch strings.ToLower(s) {
	case "true", "t", "yes", "y", "1":
		return true, true
	case "false", "f", "no", "n", "0":
		return false, true
	}
	return false, false
}

// canon returns the canonical stored value of a URL parameter value, ok=false if the value is invalid for the option.
func canon(o opt, v string) (string, bool) {
	switch {
	case o.typ == "bool":
		b, ok := parseBool(v)
		return fmt.Sprint(b), ok
	case o.typ == "int":
		n, err := strconv.Atoi(v)
		return fmt.Sprint(n), err == nil
	case o.typ == "float":
		f, err := strconv.ParseFloat(v, 64)
		return fmt.Sprint(f), err == nil
	case strings.HasPrefix(o.typ, "choice:"):
		for _, c := range strings.Split(strings.TrimPrefix(o.typ, "choice:"), ",") {
			if c == v {
				return v, true
			}
		}
		return "", false
	}
	return v, true
}

// urlForm is how a stored value appears in a menu URL ("" = parameter absent).
func urlForm(o opt, stored string) string {
	if stored == o.def {
		return ""
	}
	if o.typ == "bool" {
		return stored[:1]
	}
	return stored
}

type Op struct {
	Kind   int // 0 save, 1 delete, 2 apply (follow the menu link and compare pages)
	Name   string
	Params [][2]string
}

type histCase struct {
	Ops []Op
}

var names = []string{"a", "b", "my config", "ünï", "x&y=z", "<b>", "a", "c", "A", "My Config", "ÜNÏ", "a/b", "cpu+alloc", "cpu alloc", "top%20ten", "top ten", "50%", "a%2Fb"}

var valuePool = map[string][]string{
	"bool": {"t", "f", "true", "false", "1", "0", "yes", "", "y"}, "int": {"-1", "0", "5", "80", ""}, "float": {"0", "0.005", "0.1", "1", "0.001", "", "0.0123456789", "0.3333333333333333", "1e-9", "0.10000000149011612"},
	"string": {"", "main", "a|b", "x y", "ünï", "a&b=c", "k=v", "%41", "+"},
}

func genParams(t *rapid.T) [][2]string {
	n := rapid.IntRange(0, 5).Draw(t, "nparams")
	var out [][2]string
	seen := map[string]bool{}
	for i := 0; i < n; i++ {
		o := options[rapid.IntRange(0, len(options)-1).Draw(t, "opt")]
		if o.param == "" || seen[o.param] {
			continue
		}
		seen[o.param] = true
		var v string
		switch {
		case strings.HasPrefix(o.typ, "choice:"):
			v = rapid.SampledFrom(append(strings.Split(strings.TrimPrefix(o.typ, "choice:"), ","), "")).Draw(t, "choice")
		case o.param == "unit":
			v = rapid.SampledFrom([]string{"minimum", "auto", "ms", ""}).Draw(t, "unit")
		default:
			v = rapid.SampledFrom(valuePool[o.typ]).Draw(t, "val")
		}
		out = append(out, [2]string{o.param, v})
	}
	return out
}

func genHist(t *rapid.T) *histCase {
	c := &histCase{}
	n := rapid.IntRange(2, 9).Draw(t, "nops")
	for i := 0; i < n; i++ {
		op := Op{Kind: rapid.SampledFrom([]int{0, 0, 0, 1, 2}).Draw(t, "kind"), Name: rapid.SampledFrom(names).Draw(t, "name")}
		if op.Kind == 0 {
			op.Params = genParams(t)
		}
		c.Ops = append(c.Ops, op)
	}
	return c
}

type entry struct {
	Name   string
	Stored map[string]string // json name -> canonical stored value (all options)
}

// defaults are the options in effect when nothing is given in the URL: the documented defaults, except that
// the harness's runner always pins the granularity explicitly on its command line (functions).
func defaults() map[string]string {
	m := map[string]string{}
	for _, o := range options {
		m[o.json] = o.def
	}
	m["granularity"] = "functions"
	return m
}

func query(params [][2]string, name string) string {
	q := url.Values{}
	if name != "" {
		q.Set("config", name)
	}
	for _, p := range params {
		q.Set(p[0], p[1])
	}
	return q.Encode()
}

func tiny() *profile.Profile {
	f := &profile.Function{ID: 1, Name: "main", SystemName: "main", Filename: "main.go"}
	g := &profile.Function{ID: 2, Name: "a", SystemName: "a", Filename: "a.go"}
	l := &profile.Location{ID: 1, Address: 0x10, Line: []profile.Line{{Function: f, Line: 1}}}
	l2 := &profile.Location{ID: 2, Address: 0x20, Line: []profile.Line{{Function: g, Line: 2}}}
	return &profile.Profile{SampleType: []*profile.ValueType{{Type: "samples", Unit: "count"}}, PeriodType: &profile.ValueType{Type: "cpu", Unit: "nanoseconds"}, Period: 1,
		Function: []*profile.Function{f, g}, Location: []*profile.Location{l, l2},
		Sample: []*profile.Sample{{Location: []*profile.Location{l}, Value: []int64{3}}, {Location: []*profile.Location{l2, l}, Value: []int64{5}, Label: map[string][]string{"k": {"v"}}}}}
}

func settingsPath() string {
	return filepath.Join(os.Getenv("XDG_CONFIG_HOME"), "pprof", "settings.json")
}

var menuRe = regexp.MustCompile(`(?s)<a href="([^"]*)">\s*(<span class="menu-check-mark">✓</span>)?\s*(.*?)\s*(?:<span class="menu-delete-btn"[^>]*>[^<]*</span>)?\s*</a>`)

type menuEntry struct {
	Name, URL string
	Current   bool
}

func menu(page string) []menuEntry {
	i := strings.Index(page, `<div id="config"`)
	j := strings.Index(page, `<div id="download"`)
	if i < 0 || j < i {
		return nil
	}
	var out []menuEntry
	for _, m := range menuRe.FindAllStringSubmatch(page[i:j], -1) {
		out = append(out, menuEntry{Name: html.UnescapeString(strings.TrimSpace(m[3])), URL: html.UnescapeString(m[1]), Current: m[2] != ""})
	}
	return out
}

// readFile returns the configs in the settings file, in order.
func readFile() ([]entry, string, error) {
	b, err := os.ReadFile(settingsPath())
	if os.IsNotExist(err) {
		return nil, "", nil
	}
	if err != nil {
		return nil, "", err
	}
	var f struct {
		Configs []map[string]any `json:"configs"`
	}
	if err := json.Unmarshal(b, &f); err != nil {
		return nil, string(b), fmt.Errorf("settings file is not valid JSON: %v", err)
	}
	var out []entry
	for _, c := range f.Configs {
		e := entry{Stored: defaults()}
		for k, v := range c {
			if k == "name" {
				e.Name, _ = v.(string)
				continue
			}
			e.Stored[k] = fmt.Sprint(v)
		}
		// omitempty: absent bool/number/string fields hold their zero value, not the option default
		for _, o := range options {
			if _, ok := c[o.json]; !ok {
				switch o.typ {
				case "bool":
					e.Stored[o.json] = "false"
				case "int", "float":
					e.Stored[o.json] = "0"
				default:
					e.Stored[o.json] = ""
				}
			}
		}
		out = append(out, e)
	}
	return out, string(b), nil
}

func sameStored(a, b map[string]string) string {
	for _, o := range options {
		x, y := a[o.json], b[o.json]
		if o.typ == "float" {
			fx, _ := strconv.ParseFloat(x, 64)
			fy, _ := strconv.ParseFloat(y, 64)
			if fx == fy {
				continue
			}
		}
		if x != y {
			return fmt.Sprintf("%s: want %q got %q", o.json, x, y)
		}
	}
	return ""
}

func checkHist(c *histCase, o *vk.Obs) []string {
	var e vk.Errs
	os.RemoveAll(filepath.Dir(settingsPath()))
	w, err := pp.StartWeb(pp.Req{Args: []string{"src"}, Sources: map[string]*pp.Source{"src": {Prof: tiny()}}})
	if err != nil {
		return []string{"web did not start: " + err.Error()}
	}
	defer w.Close()
	var model []entry
	find := func(name string) int {
		for i, m := range model {
			if m.Name == name {
				return i
			}
		}
		return -1
	}
	deleted, savedAfterDelete := false, false
	for step, op := range c.Ops {
		switch op.Kind {
		case 0:
			code, body, _, pan := w.Get("/saveconfig?" + query(op.Params, op.Name))
			if pan != "" {
				return []string{"saveconfig panicked: " + pan}
			}
			// expected stored config: defaults overridden by valid non-empty parameters; an invalid value rejects the save
			st := defaults()
			valid := true
			for _, p := range op.Params {
				for _, ot := range options {
					if ot.param == p[0] && p[1] != "" {
						v, ok := canon(ot, p[1])
						if !ok {
							valid = false
						}
						st[ot.json] = v
					}
				}
			}
			if !valid {
				if code == 200 {
					e.Addf("step %d: save with an invalid value was accepted", step)
				}
				break
			}
			if code != 200 {
				e.Addf("step %d: save %q %v failed: %d %s", step, op.Name, op.Params, code, body)
				break
			}
			if i := find(op.Name); i >= 0 {
				model[i].Stored = st
			} else {
				model = append(model, entry{op.Name, st})
			}
			if deleted {
				savedAfterDelete = true
			}
		case 1:
			code, _, _, pan := w.Get("/deleteconfig?config=" + url.QueryEscape(op.Name))
			if pan != "" {
				return []string{"deleteconfig panicked: " + pan}
			}
			if i := find(op.Name); i >= 0 {
				if code != 200 {
					e.Addf("step %d: deleting existing config %q failed with %d", step, op.Name, code)
				}
				model = append(model[:i:i], model[i+1:]...)
				deleted = true
			} else if code == 200 {
				e.Addf("step %d: deleting the unknown config %q reported success", step, op.Name)
			}
		case 2:
			i := find(op.Name)
			if i < 0 {
				break
			}
			// the menu link of the config, followed, must give the page of the original options
			_, page, _, _ := w.Get("/top")
			var link string
			for _, m := range menu(page) {
				if m.Name == op.Name {
					link = m.URL
				}
			}
			orig := url.Values{}
			for _, ot := range options {
				if ot.param != "" && model[i].Stored[ot.json] != ot.def {
					orig.Set(ot.param, model[i].Stored[ot.json])
				}
			}
			c1, p1, _, _ := w.Get("/top" + link)
			c2, p2, _, _ := w.Get("/top?" + orig.Encode())
			// the config menu itself marks the current entry by comparing URL spellings ("t" vs "true"); the
			// restored view is everything else on the page
			if c1 != c2 || stripMenu(p1) != stripMenu(p2) {
				e.Addf("step %d: following the menu link %q of config %q gives another page than the options it was saved with (%q): status %d vs %d", step, link, op.Name, orig.Encode(), c1, c2)
			} else if c1 == 200 {
				cur := false
				for _, m := range menu(p1) {
					if m.Name == op.Name && m.Current {
						cur = true
					}
				}
				if !cur {
					// another entry with identical options may be marked instead (the last match wins)
					dup := false
					for j, m := range model {
						if j != i && sameStored(m.Stored, model[i].Stored) == "" {
							dup = true
						}
					}
					if !dup && sameStored(model[i].Stored, defaults()) != "" {
						e.Addf("step %d: after following its link, config %q is not marked as the current one", step, op.Name)
					}
				}
			}
		}
		// invariant after every step: file == model, menu == model
		got, raw, err := readFile()
		if err != nil {
			e.Addf("step %d: %v: %.300s", step, err, raw)
			break
		}
		if len(got) != len(model) {
			e.Addf("step %d (%+v): settings file holds %d configs, expected %d (%v)", step, op, len(got), len(model), names4(model))
			break
		}
		for i := range model {
			if got[i].Name != model[i].Name {
				e.Addf("step %d: config %d is %q, expected %q", step, i, got[i].Name, model[i].Name)
			} else if d := sameStored(model[i].Stored, got[i].Stored); d != "" {
				e.Addf("step %d (%+v): config %q in the settings file differs from what was saved: %s", step, op, model[i].Name, d)
			}
		}
		_, page, _, _ := w.Get("/top")
		ms := menu(page)
		if len(ms) != len(model)+1 {
			e.Addf("step %d: config menu lists %d entries, expected Default + %d", step, len(ms), len(model))
			break
		}
		for i, m := range model {
			me := ms[i+1]
			if me.Name != m.Name {
				e.Addf("step %d: menu entry %d is %q, expected %q", step, i+1, me.Name, m.Name)
				continue
			}
			u, err := url.Parse(me.URL)
			if err != nil {
				e.Addf("step %d: menu URL %q does not parse", step, me.URL)
				continue
			}
			q := u.Query()
			for _, ot := range options {
				if ot.param == "" {
					continue
				}
				want := urlForm(ot, m.Stored[ot.json])
				got := q.Get(ot.param)
				if ot.typ == "float" && want != "" && got != "" {
					a, _ := strconv.ParseFloat(want, 64)
					b, _ := strconv.ParseFloat(got, 64)
					if a == b {
						continue
					}
				}
				if got != want {
					e.Addf("step %d: menu URL of %q has %s=%q, the saved option is %q (url form %q)", step, m.Name, ot.param, got, m.Stored[ot.json], want)
				}
			}
		}
		if len(e) > 0 {
			break
		}
	}
	o.LabelIf(deleted, "delete")
	o.LabelIf(savedAfterDelete, "save-after-delete")
	distinct := map[string]bool{}
	for _, op := range c.Ops {
		if op.Kind == 0 {
			distinct[op.Name] = true
		}
	}
	o.NonTrivial = len(distinct) >= 2 && savedAfterDelete
	return e
}

func stripMenu(page string) string {
	i := strings.Index(page, `<div id="config"`)
	j := strings.Index(page, `<div id="download"`)
	if i < 0 || j < i {
		return page
	}
	return page[:i] + page[j:]
}

func names4(m []entry) []string {
	var n []string
	for _, x := range m {
		n = append(n, x.Name)
	}
	return n
}

func TestPropHistory(t *testing.T) {
	vk.Main(t, vk.Spec[histCase]{ID: "C19", Facet: "history", Quick: 400, Thorough: 3000, Gen: genHist, Check: checkHist, Journal: true,
		Rule: "histories of 2..9 save / delete / apply operations through the web handlers against a scratch XDG_CONFIG_HOME; names incl. duplicates, pairs differing only in letter case, spaces, unicode, '&', '<', '/'; saves carry 0..5 URL parameters over every option with values incl. defaults, the empty string, alternative bool spellings and invalid values; oracle: an ordered map model (name -> normalised options) compared after every step with the settings file (valid JSON, same names, order and options) and with the config menu of a rendered page (names, URLs whose parameters equal the saved options in URL form); following a menu link gives the same /top page as the original options; non-trivial = >=2 names and a save after a delete"})
}

// ---- facet crash: every byte position at which a save can be cut ----

type crashCase struct {
	Before []Op // saves that build the previous contents
	Save   Op
	Ignore bool  // SIGXFSZ ignored: the write fails; otherwise the process is killed mid-write
	Sample []int // sampled positions when the new file is larger than 600 bytes
	Link   bool  // settings.json is a symbolic link to a file next to it (a dotfiles checkout)
}

func genCrash(t *rapid.T) *crashCase {
	c := &crashCase{Ignore: rapid.Bool().Draw(t, "ignore"), Link: rapid.IntRange(0, 3).Draw(t, "symlink") == 0}
	n := rapid.IntRange(0, 3).Draw(t, "nbefore")
	for i := 0; i < n; i++ {
		c.Before = append(c.Before, Op{Name: rapid.SampledFrom(names).Draw(t, "bname"), Params: genValidParams(t)})
	}
	c.Save = Op{Name: rapid.SampledFrom(names).Draw(t, "name"), Params: genValidParams(t)}
	if n > 0 && rapid.Bool().Draw(t, "overwrite") {
		c.Save.Name = c.Before[0].Name // replace an existing configuration
	}
	c.Sample = rapid.SliceOfN(rapid.IntRange(0, 4000), 6, 6).Draw(t, "positions")
	return c
}

func genValidParams(t *rapid.T) [][2]string {
	var out [][2]string
	for _, p := range genParams(t) {
		for _, ot := range options {
			if ot.param == p[0] {
				if _, ok := canon(ot, p[1]); ok || p[1] == "" {
					out = append(out, p)
				}
			}
		}
	}
	return out
}

func helper() string { return filepath.Join(os.Getenv("VERIF_BUILD"), "xhelper") }

func runHelper(env []string, args ...string) (int, string) {
	cmd := exec.Command(helper(), args...)
	cmd.Env = append(os.Environ(), env...)
	out, err := cmd.CombinedOutput()
	code := 0
	if err != nil {
		code = -1
		if ee, ok := err.(*exec.ExitError); ok {
			code = ee.ExitCode()
		}
	}
	return code, string(out)
}

func checkCrash(c *crashCase, o *vk.Obs) []string {
	var e vk.Errs
	if _, err := os.Stat(helper()); err != nil {
		o.Inconcl = append(o.Inconcl, "helper binary missing")
		return nil
	}
	dir := filepath.Dir(settingsPath())
	os.RemoveAll(dir)
	for _, op := range c.Before {
		if code, out := runHelper(nil, "save", query(op.Params, op.Name)); code != 0 {
			return []string{fmt.Sprintf("preparing save failed: %d %s", code, out)}
		}
	}
	old, _ := os.ReadFile(settingsPath())
	// the complete new contents
	if code, out := runHelper(nil, "save", query(c.Save.Params, c.Save.Name)); code != 0 {
		return []string{fmt.Sprintf("uninterrupted save failed: %d %s", code, out)}
	}
	newb, _ := os.ReadFile(settingsPath())
	restore := func() {
		os.Remove(settingsPath())
		if old == nil {
			return
		}
		if c.Link {
			// the configuration lives in another file; settings.json is a link to it
			target := filepath.Join(filepath.Dir(settingsPath()), "settings.real.json")
			os.WriteFile(target, old, 0o644)
			os.Symlink("settings.real.json", settingsPath())
			return
		}
		os.WriteFile(settingsPath(), old, 0o644)
	}
	o.LabelIf(c.Link && old != nil, "symlinked-settings")
	var positions []int
	if len(newb) <= 320 {
		for k := 0; k < len(newb); k++ {
			positions = append(positions, k)
		}
		o.Label("exhaustive-positions")
	} else {
		for _, s := range c.Sample {
			positions = append(positions, s%len(newb))
		}
		for k := 0; k < len(newb); k += len(newb)/24 + 1 {
			positions = append(positions, k)
		}
		positions = append(positions, 0, 1, len(newb)-1, len(old))
	}
	env := []string{}
	if c.Ignore {
		env = append(env, "XHELPER_IGNORE_XFSZ=1")
		o.Label("write-fails")
	} else {
		o.Label("killed-mid-write")
	}
	o.NonTrivial = len(old) > 0
	for _, k := range positions {
		restore()
		code, out := runHelper(append(env, fmt.Sprintf("XHELPER_FSIZE=%d", k)), "save", query(c.Save.Params, c.Save.Name))
		got, err := os.ReadFile(settingsPath())
		if os.IsNotExist(err) {
			got = nil
		}
		if string(got) != string(old) && string(got) != string(newb) {
			e.Addf("save interrupted after %d of %d bytes (%s, helper exit %d): the settings file holds neither the previous contents (%d bytes) nor the new contents but %d bytes: %.200q\nhelper: %.200s",
				k, len(newb), map[bool]string{true: "write error", false: "process killed"}[c.Ignore], code, len(old), len(got), got, out)
			break
		}
	}
	// leftovers in the settings directory (temporary files) are allowed; the file itself is what counts
	restore()
	return e
}

func TestPropCrash(t *testing.T) {
	vk.Main(t, vk.Spec[crashCase]{ID: "C19", Facet: "crash", Quick: 30, Thorough: 160, Gen: genCrash, Check: checkCrash,
		Rule: "for a generated previous settings file and a generated save, a child process performs the same save under RLIMIT_FSIZE=k for EVERY byte position k of the new file (all positions when the file is <= 320 bytes, else ~35 positions: a stride over the whole file, 6 drawn ones and the ends), once as a failing write (SIGXFSZ ignored) and once as a process killed in the middle of the write; oracle: afterwards the settings file holds exactly the complete previous or the complete new contents; every (save, k) pair is an evaluation; non-trivial = a previous file existed"})
}

// ---- facet syscall: the saving process is killed between any two system calls ----

const fileSyscalls = "openat,open,creat,write,pwrite64,writev,rename,renameat,renameat2,unlink,unlinkat,link,linkat,fsync,fdatasync,ftruncate,truncate,close,fchmod,fchmodat,chmod,mkdir,mkdirat"

func checkSyscall(c *crashCase, o *vk.Obs) []string {
	var e vk.Errs
	strace, err := exec.LookPath("strace")
	if err != nil {
		o.Inconcl = append(o.Inconcl, "strace not installed")
		return nil
	}
	if _, err := os.Stat(helper()); err != nil {
		o.Inconcl = append(o.Inconcl, "helper binary missing")
		return nil
	}
	dir := filepath.Dir(settingsPath())
	os.RemoveAll(dir)
	for _, op := range c.Before {
		if code, out := runHelper(nil, "save", query(op.Params, op.Name)); code != 0 {
			return []string{fmt.Sprintf("preparing save failed: %d %s", code, out)}
		}
	}
	old, _ := os.ReadFile(settingsPath())
	if code, out := runHelper(nil, "save", query(c.Save.Params, c.Save.Name)); code != 0 {
		return []string{fmt.Sprintf("uninterrupted save failed: %d %s", code, out)}
	}
	newb, _ := os.ReadFile(settingsPath())
	restore := func() {
		// also clears temporary files a killed save left behind
		os.RemoveAll(dir)
		if old != nil {
			os.MkdirAll(dir, 0o755)
			if c.Link {
				os.WriteFile(filepath.Join(dir, "settings.real.json"), old, 0o644)
				os.Symlink("settings.real.json", settingsPath())
				return
			}
			os.WriteFile(settingsPath(), old, 0o644)
		}
	}
	o.LabelIf(c.Link && old != nil, "symlinked-settings")
	o.NonTrivial = len(old) > 0
	killed := 0
	// strace counts invocations per system call: enumerate (call, k) pairs
scan:
	for _, sc := range strings.Split(fileSyscalls, ",") {
		for k := 1; k <= 200; k++ {
			restore()
			cmd := exec.Command(strace, "-f", "-o", "/dev/null", "-e", "trace="+sc, "-e", fmt.Sprintf("inject=%s:signal=KILL:when=%d", sc, k),
				helper(), "save", query(c.Save.Params, c.Save.Name))
			cmd.Env = append(os.Environ(), "XHELPER_LOCKTHREAD=1", "GOMAXPROCS=1")
			out, err := cmd.CombinedOutput()
			got, rerr := os.ReadFile(settingsPath())
			if os.IsNotExist(rerr) {
				got = nil
			}
			if string(got) != string(old) && string(got) != string(newb) {
				e.Addf("saving process killed on entering its %s call number %d: the settings file holds neither the previous contents (%d bytes) nor the new contents (%d bytes) but %s\nhelper: %.200s",
					sc, k, len(old), len(newb), describeFile(got, rerr), out)
				break scan
			}
			if err == nil {
				// the save ran to completion: the process makes fewer than k calls of this kind
				if string(got) != string(newb) {
					e.Addf("uninterrupted traced save did not produce the new contents")
					break scan
				}
				break
			}
			killed++
		}
	}
	if killed < 5 && len(e) == 0 {
		o.Inconcl = append(o.Inconcl, fmt.Sprintf("only %d kill points were reached", killed))
	}
	o.Label(fmt.Sprintf("killpoints:%d0s", killed/10))
	restore()
	return e
}

func describeFile(b []byte, err error) string {
	if err != nil {
		return "no file at all (" + err.Error() + ")"
	}
	return fmt.Sprintf("%d bytes: %.200q", len(b), b)
}

func TestPropSyscall(t *testing.T) {
	vk.Main(t, vk.Spec[crashCase]{ID: "C19", Facet: "syscall", Quick: 8, Thorough: 30, Gen: genCrash, Check: checkSyscall,
		Rule: "for a generated previous settings file and a generated save, a child process performs the same save under strace with SIGKILL injected on ENTERING the k-th invocation of each file-related system call (open/write/rename/unlink/fsync/close/mkdir/chmod/...; the kernel skips the call), for every call kind and every k until the save completes: every state between two system calls of the save is a crash point; oracle: afterwards the settings file holds exactly the complete previous or the complete new contents; non-trivial = a previous file existed"})
}

// ---- facet concurrent: simultaneous saves and deletes ----

type concCase struct {
	Saves   []Op
	Deletes []string
	Pre     []Op
	// TwoUIs: the requests are spread over two web UIs of one process that share the settings file
	TwoUIs bool
}

func genConc(t *rapid.T) *concCase {
	c := &concCase{}
	n := rapid.IntRange(2, 8).Draw(t, "nsaves")
	for i := 0; i < n; i++ {
		c.Saves = append(c.Saves, Op{Name: fmt.Sprintf("cfg%d", i), Params: genValidParams(t)})
	}
	c.TwoUIs = rapid.Bool().Draw(t, "twouis")
	np := rapid.IntRange(0, 3).Draw(t, "npre")
	for i := 0; i < np; i++ {
		c.Pre = append(c.Pre, Op{Name: fmt.Sprintf("old%d", i), Params: genValidParams(t)})
		if rapid.Bool().Draw(t, "del") {
			c.Deletes = append(c.Deletes, fmt.Sprintf("old%d", i))
		}
	}
	return c
}

func checkConc(c *concCase, o *vk.Obs) []string {
	var e vk.Errs
	os.RemoveAll(filepath.Dir(settingsPath()))
	w, err := pp.StartWebNoCapture(pp.Req{Args: []string{"src"}, Sources: map[string]*pp.Source{"src": {Prof: tiny()}}})
	if err != nil {
		return []string{"web did not start: " + err.Error()}
	}
	defer w.Close()
	uis := []*pp.Web{w}
	if c.TwoUIs {
		w2, err := pp.StartWebNoCapture(pp.Req{Args: []string{"src"}, Sources: map[string]*pp.Source{"src": {Prof: tiny()}}})
		if err != nil {
			return []string{"second web UI did not start: " + err.Error()}
		}
		defer w2.Close()
		uis = append(uis, w2)
		o.Label("two-web-uis")
	}
	for _, op := range c.Pre {
		w.Get("/saveconfig?" + query(op.Params, op.Name))
	}
	var wg sync.WaitGroup
	start := make(chan struct{})
	var mu sync.Mutex
	fail := 0
	nreq := 0
	do := func(target string) {
		mu.Lock()
		ui := uis[nreq%len(uis)]
		nreq++
		mu.Unlock()
		defer wg.Done()
		<-start
		code, _, _, _ := ui.Get(target)
		if code != 200 {
			mu.Lock()
			fail++
			mu.Unlock()
		}
	}
	for _, op := range c.Saves {
		wg.Add(1)
		go do("/saveconfig?" + query(op.Params, op.Name))
	}
	for _, d := range c.Deletes {
		wg.Add(1)
		go do("/deleteconfig?config=" + d)
	}
	close(start)
	wg.Wait()
	o.NonTrivial = true
	o.LabelIf(len(c.Deletes) > 0, "with-deletes")
	if fail > 0 {
		e.Addf("%d of %d concurrent requests failed", fail, len(c.Saves)+len(c.Deletes))
	}
	got, raw, err := readFile()
	if err != nil {
		e.Addf("after concurrent requests: %v: %.300s", err, raw)
		return e
	}
	have := map[string]bool{}
	for _, g := range got {
		have[g.Name] = true
	}
	var missing, zombie []string
	for _, op := range c.Saves {
		if !have[op.Name] {
			missing = append(missing, op.Name)
		}
	}
	del := map[string]bool{}
	for _, d := range c.Deletes {
		del[d] = true
		if have[d] {
			zombie = append(zombie, d)
		}
	}
	for _, op := range c.Pre {
		if !del[op.Name] && !have[op.Name] {
			missing = append(missing, op.Name)
		}
	}
	sort.Strings(missing)
	if len(missing) > 0 || len(zombie) > 0 {
		e.Addf("%d saves and %d deletes issued at once on distinct names: the result is not that of any sequential order: lost %v, still present although deleted %v (file has %v)", len(c.Saves), len(c.Deletes), missing, zombie, names4(got))
	}
	return e
}

func TestPropConcurrent(t *testing.T) {
	vk.Main(t, vk.Spec[concCase]{ID: "C19", Facet: "concurrent", Quick: 150, Thorough: 1500, Gen: genConc, Check: checkConc, Journal: true, CaseTimeout: 60 * time.Second,
		Rule: "2..8 save requests on distinct names plus deletes of previously saved names released at the same instant against one web UI; oracle: every request succeeds and the final settings file equals the outcome of some sequential order, which for distinct names means every saved name is present and every deleted name is gone; every batch is non-trivial"})
}
