module github.com/google/pprof/xverif

go 1.23

require (
	github.com/google/pprof v0.0.0
	pgregory.net/rapid v1.3.0
)

require github.com/ianlancetaylor/demangle v0.0.0-20240312041847-bd984b5ce465 // indirect

replace github.com/google/pprof => /repo
