package c05

import (
	"fmt"
	"sort"
	"strconv"
	"strings"
	"testing"

	"github.com/google/pprof/xverif/gen"
	"github.com/google/pprof/xverif/model"
	"github.com/google/pprof/xverif/pp"
	"github.com/google/pprof/xverif/rep"
	"github.com/google/pprof/xverif/vk"
	"pgregory.net/rapid"
)

type Trim struct {
	NodeCount int
	NFMode    int // 0..5 fixed fractions; 6: relative to the cum of entry NFEntry
	NFEntry   int
	NFDelta   int // -1, 0, +1 : just below / at / just above that entry's share
	EFMode    int
	EFEntry   int
	SortCum   bool
}

type trimCase struct {
	P *gen.Prof
	C rep.Conf
	T Trim
	// Paths: 0 none; 1 -source_path=/my/proj (prefix guessed from the base name); 2 -trim_path=/r/proj with
	// -source_path=/my/x. The profile's file names get a prefix (PathSel per function) that the options remove.
	Paths   int
	PathSel []bool
}

// pathPrefixes[mode][sel] is put in front of a file name; pathRemain is what the documented trimming leaves of it
var pathPrefixes = map[int][2]string{1: {"/r/proj/", "/r/proj/x/proj/"}, 2: {"/r/proj/", "/r/proj/q/x/"}}
var pathRemain = map[int][2]string{1: {"", "x/proj/"}, 2: {"", "q/x/"}}

var fixedFractions = []float64{0, 1e-9, 0.1, 0.5, 1, 2}

func genCase(t *rapid.T) *trimCase {
	o := rep.ProfOpts
	o.NonNeg = rapid.IntRange(0, 2).Draw(t, "nonneg") != 0
	p := rep.GenProfile(t, o)
	c := rep.GenConf(t, p, []string{"top", "tree", "dot"})
	tr := Trim{NodeCount: rapid.SampledFrom([]int{-1, 0, 1, 2, 3, 4, 5, 8}).Draw(t, "nodecount"), NFMode: rapid.IntRange(0, 6).Draw(t, "nfmode"),
		NFEntry: rapid.IntRange(0, 7).Draw(t, "nfentry"), NFDelta: rapid.IntRange(-1, 1).Draw(t, "nfdelta"),
		EFMode: rapid.IntRange(0, 6).Draw(t, "efmode"), EFEntry: rapid.IntRange(0, 7).Draw(t, "efentry"), SortCum: rapid.Bool().Draw(t, "sortcum")}
	tc := &trimCase{P: p, C: c, T: tr}
	if rapid.IntRange(0, 3).Draw(t, "paths") == 0 {
		tc.Paths = rapid.IntRange(1, 2).Draw(t, "pathmode")
		tc.PathSel = rapid.SliceOfN(rapid.Bool(), 8, 8).Draw(t, "pathsel")
	}
	return tc
}

func fraction(mode, entry, delta int, rows []model.Row, total int64) float64 {
	if mode < 6 || len(rows) == 0 || total == 0 {
		return fixedFractions[mode%6]
	}
	r := rows[entry%len(rows)]
	c := r.Cum
	if c < 0 {
		c = -c
	}
	f := float64(c) / float64(total)
	switch delta {
	case -1:
		f *= 0.999
	case 1:
		f *= 1.001
	}
	return f
}

func abs(x int64) int64 {
	if x < 0 {
		return -x
	}
	return x
}

func rowKey(r model.Row) string { return fmt.Sprintf("%s\x00%d\x00%d", r.Name, r.Flat, r.Cum) }

func check(c *trimCase, o *vk.Obs) []string {
	var e vk.Errs
	p := c.P.Build()
	pRun := p
	if c.Paths != 0 {
		// pprof gets the prefixed file names plus the options that remove the prefix; the reference model gets
		// what the documented trimming leaves (done once: the name of an entry does not depend on how often the
		// graph is rebuilt while trimming)
		pRun = c.P.Build()
		for i, f := range pRun.Function {
			if f.Filename == "" {
				continue
			}
			sel := 0
			if c.PathSel[i%len(c.PathSel)] {
				sel = 1
			}
			rest := strings.TrimLeft(f.Filename, "/")
			f.Filename = pathPrefixes[c.Paths][sel] + rest
			p.Function[i].Filename = pathRemain[c.Paths][sel] + rest
		}
		o.Label(fmt.Sprintf("paths:%d", c.Paths))
	}
	idx, ok := rep.ResolveIndex(p, c.C.SampleIndex)
	if !ok {
		return nil
	}
	rep.Classify(p, c.C, o, idx)
	mFine := model.BuildReport(p, c.C.Model(idx, false))
	allRows := mFine.Rows()
	nf := fraction(c.T.NFMode, c.T.NFEntry, c.T.NFDelta, allRows, mFine.Total)
	ef := fraction(c.T.EFMode, c.T.EFEntry, 0, allRows, mFine.Total)

	run := func(trim bool) (*pp.Res, string) {
		fl := c.C.Flags()
		fl["trim"] = fmt.Sprint(trim)
		fl["nodecount"] = strconv.Itoa(c.T.NodeCount)
		fl["nodefraction"] = strconv.FormatFloat(nf, 'g', -1, 64)
		fl["edgefraction"] = strconv.FormatFloat(ef, 'g', -1, 64)
		fl["flat"], fl["cum"] = fmt.Sprint(!c.T.SortCum), fmt.Sprint(c.T.SortCum)
		switch c.Paths {
		case 1:
			fl["source_path"] = "/my/proj"
		case 2:
			fl["trim_path"], fl["source_path"] = "/r/proj", "/my/x"
		}
		r := pp.Run(pp.Req{Flags: fl, Args: []string{"src"}, Sources: map[string]*pp.Source{"src": {Prof: pRun}}})
		return r, r.Out("out")
	}
	ru, uo := run(false)
	rt, to := run(true)
	for _, r := range []*pp.Res{ru, rt} {
		if r.Panic != "" {
			return []string{"pprof panicked: " + r.Panic}
		}
	}
	if ru.Err != nil || rt.Err != nil {
		if ru.Err != nil && rt.Err != nil {
			o.Label("error-both")
			return nil
		}
		e.Addf("trimmed and untrimmed runs disagree on failure: untrimmed err=%v trimmed err=%v", ru.Err, rt.Err)
		return e
	}
	// zero-sum entries of the model are never listed; an edge to one is the separate (C18) matter
	elided := map[string]bool{}
	for _, en := range mFine.Entries {
		if en.Flat.V == 0 && en.Cum.V == 0 {
			elided[en.Name] = true
		}
	}
	type parsed struct {
		rows    []model.TopRow
		edges   []model.EdgeRow
		resid   map[string]bool // residual-marked edges (dot)
		lg      *model.Legend
		undecl  []string
		ordered []model.TopRow
	}
	parse := func(out string) (*parsed, error) {
		pr := &parsed{resid: map[string]bool{}}
		switch c.C.Format {
		case "top":
			lg, rows, err := model.ParseTop(out)
			if err != nil {
				return nil, err
			}
			pr.lg, pr.rows = lg, rows
		case "tree":
			t, err := model.ParseTree(out)
			if err != nil {
				return nil, err
			}
			pr.lg, pr.rows = t.Legend, t.Rows
			in, outE := append([]model.EdgeRow{}, t.In...), append([]model.EdgeRow{}, t.Out...)
			model.SortEdges(in)
			model.SortEdges(outE)
			if fmt.Sprint(in) != fmt.Sprint(outE) {
				// an edge must be listed both under its caller and under its callee when both are shown
				shown := map[string]bool{}
				for _, r := range t.Rows {
					shown[r.Name] = true
				}
				filter := func(es []model.EdgeRow) []model.EdgeRow {
					var o2 []model.EdgeRow
					for _, ed := range es {
						if shown[ed.From] && shown[ed.To] && !elided[ed.From] && !elided[ed.To] {
							o2 = append(o2, ed)
						}
					}
					return o2
				}
				if fmt.Sprint(filter(in)) != fmt.Sprint(filter(outE)) {
					return nil, fmt.Errorf("callers and callees lists disagree: %v vs %v", filter(in), filter(outE))
				}
			}
			seen := map[string]bool{}
			for _, ed := range append(in, outE...) {
				k := fmt.Sprint(ed)
				if !seen[k] {
					seen[k] = true
					pr.edges = append(pr.edges, ed)
				}
			}
		case "dot":
			g, err := model.ParseDot(out)
			if err != nil {
				return nil, err
			}
			rows, edges, lg, err := rep.DotRows(out)
			if err != nil {
				return nil, err
			}
			pr.lg = lg
			for _, r := range rows {
				pr.rows = append(pr.rows, model.TopRow{Row: r})
			}
			for _, ed := range edges {
				if strings.HasPrefix(ed.From, "\x00undeclared:") {
					pr.undecl = append(pr.undecl, ed.From+" -> "+ed.To)
					continue
				}
				pr.edges = append(pr.edges, ed)
			}
			nameOf := map[string]string{}
			for _, id := range g.NodeSeq {
				if tip := g.Nodes[id].Attrs["tooltip"]; strings.HasPrefix(id, "N") && !strings.Contains(id, "_") {
					if i := strings.LastIndex(tip, " ("); i >= 0 {
						nameOf[id] = tip[:i]
					}
				}
			}
			for _, ed := range g.Edges {
				if strings.Contains(ed.To, "_") {
					continue
				}
				if ed.Attrs["style"] == "dotted" || strings.Contains(ed.Attrs["tooltip"], " ... ") {
					pr.resid[nameOf[ed.From]+"\x00"+nameOf[ed.To]] = true
				}
			}
		}
		return pr, nil
	}
	U, err := parse(uo)
	if err != nil {
		e.Addf("cannot parse untrimmed -%s output: %v\n%s", c.C.Format, err, uo)
		return e
	}
	T, err := parse(to)
	if err != nil {
		e.Addf("cannot parse trimmed -%s output: %v\n%s", c.C.Format, err, to)
		return e
	}
	// (1) every entry shown carries its untrimmed numbers
	ucount := map[string]int{}
	for _, r := range U.rows {
		ucount[rowKey(r.Row)]++
	}
	for _, r := range T.rows {
		k := rowKey(r.Row)
		if ucount[k] == 0 {
			e.Addf("trimmed -%s shows %q flat=%d cum=%d, which the untrimmed report does not contain (untrimmed rows: %v)", c.C.Format, r.Name, r.Flat, r.Cum, rep.RowsOf(U.rows))
		} else {
			ucount[k]--
		}
	}
	removed := len(U.rows) - len(T.rows)
	o.LabelIf(removed > 0 && len(T.rows) > 0, "removed-some")
	o.LabelIf(removed > 0 && len(T.rows) == 0, "removed-all")
	o.NonTrivial = removed > 0 && len(T.rows) > 0
	// (2),(3) edges
	uedge := map[string]int{}
	for _, ed := range U.edges {
		uedge[fmt.Sprint(ed)]++
	}
	shown := map[string]bool{}
	for _, r := range T.rows {
		shown[r.Name] = true
	}
	uniqueNames := true
	{
		seen := map[string]bool{}
		for _, r := range U.rows {
			if seen[r.Name] {
				uniqueNames = false
			}
			seen[r.Name] = true
		}
	}
	for _, ed := range T.edges {
		if !shown[ed.From] || !shown[ed.To] {
			if elided[ed.From] || elided[ed.To] {
				o.Label("edge-to-zero-entry")
				continue
			}
			e.Addf("trimmed -%s has edge %q -> %q (%d) but an endpoint is not a shown entry", c.C.Format, ed.From, ed.To, ed.W)
			continue
		}
		if uedge[fmt.Sprint(ed)] > 0 {
			continue
		}
		// not an untrimmed edge with this weight: must be a residual edge
		o.Label("residual-edge")
		if c.C.Format == "dot" && !T.resid[ed.From+"\x00"+ed.To] {
			e.Addf("trimmed -dot edge %q -> %q (%d) differs from the untrimmed report and is not marked residual", ed.From, ed.To, ed.W)
		}
		if removed == 0 {
			e.Addf("nothing was removed, yet edge %q -> %q (%d) differs from the untrimmed report", ed.From, ed.To, ed.W)
		}
	}
	if len(T.undecl) > 0 {
		// an edge whose endpoint is not declared: either a zero-sum entry (C18's matter) or a removed one
		if len(elided) == 0 {
			e.Addf("trimmed -dot has edges to undeclared nodes: %v", T.undecl)
		} else {
			o.Label("edge-to-zero-entry")
		}
	}
	// (4) legend
	if T.lg == nil || !T.lg.HasShowing {
		e.Addf("trimmed report has no 'Showing nodes accounting for' line")
	} else {
		var sum int64
		for _, r := range T.rows {
			sum += r.Flat
		}
		if int64(T.lg.Shown) != sum {
			e.Addf("'accounting for' %s is not the sum of the flat values shown (%d)", T.lg.ShownStr, sum)
		}
		if int64(T.lg.Total) != mFine.Total {
			e.Addf("legend total %s differs from the report total %d", T.lg.TotalStr, mFine.Total)
		}
		if T.lg.HasTop {
			if T.lg.TopN != len(T.rows) {
				e.Addf("legend says top %d nodes but %d are shown", T.lg.TopN, len(T.rows))
			}
			if T.lg.TopOf <= T.lg.TopN {
				e.Addf("legend says top %d out of %d", T.lg.TopN, T.lg.TopOf)
			}
		}
	}
	// (5) text reports: exact shown set, for the unambiguous class
	nonneg := true
	for _, s := range p.Sample {
		if s.Value[idx] < 0 || len(s.Location) == 0 {
			nonneg = false
		}
	}
	if (c.C.Format == "top" || c.C.Format == "tree") && nonneg && !c.C.Mean && uniqueNames {
		o.Label("exact-set-checked")
		cutoff := int64(float64(mFine.Total) * nf)
		if cutoff < 0 {
			cutoff = -cutoff
		}
		var keep []model.Row
		for _, r := range allRows {
			if abs(r.Cum) >= cutoff {
				keep = append(keep, r)
			}
		}
		wantDropped := len(allRows) - len(keep)
		sort.SliceStable(keep, func(i, j int) bool {
			a, b := keep[i], keep[j]
			if c.T.SortCum {
				if abs(a.Cum) != abs(b.Cum) {
					return abs(a.Cum) > abs(b.Cum)
				}
				if a.Name != b.Name {
					return a.Name < b.Name
				}
				return abs(a.Flat) > abs(b.Flat)
			}
			if abs(a.Flat) != abs(b.Flat) {
				return abs(a.Flat) > abs(b.Flat)
			}
			if a.Name != b.Name {
				return a.Name < b.Name
			}
			return abs(a.Cum) > abs(b.Cum)
		})
		n := c.T.NodeCount
		if n == -1 {
			if c.C.Format == "top" {
				n = 0
			} else {
				n = 80
			}
		}
		if n > 0 && n < len(keep) {
			keep = keep[:n]
		}
		var want, got []string
		for _, r := range keep {
			want = append(want, rowKey(r))
		}
		for _, r := range T.rows {
			got = append(got, rowKey(r.Row))
		}
		if strings.Join(want, "|") != strings.Join(got, "|") {
			e.Addf("trimmed -%s (nodecount=%d nodefraction=%v cutoff=%d sort=%v) shows the wrong entries or order:\n   want %q\n   got  %q", c.C.Format, c.T.NodeCount, nf, cutoff, map[bool]string{true: "cum", false: "flat"}[c.T.SortCum], want, got)
		}
		if cutoff > 0 && wantDropped != T.lg.DroppedNodes {
			e.Addf("legend says %d nodes dropped by the cum cutoff, expected %d", T.lg.DroppedNodes, wantDropped)
		}
	}
	return e
}

func TestPropTrim(t *testing.T) {
	vk.Main(t, vk.Spec[trimCase]{ID: "C05", Facet: "trim", Journal: true, Quick: 5000, Thorough: 30000, Gen: genCase, Check: check,
		Rule: "C04's profiles and options x nodecount in {-1,0,1,2,3,4,5,8} x nodefraction/edgefraction in {0,1e-9,0.1,0.5,1,2, share of a drawn entry's cum (just below/at/just above)} x sort x call_tree x format (top,tree,dot); oracle: metamorphic against the untrimmed run (rows and non-residual edges must be a sub-multiset with identical numbers, residual marking, endpoints shown, legend arithmetic) plus the exact shown set and order from the reference model for non-negative profiles without empty stacks; non-trivial = at least one entry removed and one kept"})
}
