package c16

import (
	"bytes"
	"fmt"
	"io"
	"net/http"
	"os"
	"path/filepath"
	"strings"
	"sync"
	"testing"
	"time"

	"github.com/google/pprof/profile"
	"github.com/google/pprof/xverif/model"
	"github.com/google/pprof/xverif/pp"
	"github.com/google/pprof/xverif/tlsfix"
	"github.com/google/pprof/xverif/vk"
	"pgregory.net/rapid"
)

type fetchCase struct {
	N, NB  int
	Fail   []int // per source: 0 ok, 1 fetch error / missing, 2 garbage body, 3 invalid profile / HTTP 500, 4 HTTP 404, 5/6 invalid profile object, 7 gzip stream failing its checksum
	FailB  []int
	Own    bool // use pprof's own fetcher (files and URLs) instead of the Fetcher plug-in
	URL    []bool
	DelayA []int // completion-order perturbation for run A / run B
	DelayB []int
	DiffB  bool // bases given with -diff_base
	Units  bool // the sources record the same sample type in different units (s, ns, ms by position)
	Format string
}

var sizes = []int{1, 2, 3, 5, 127, 128, 129, 130, 255, 256, 257, 300}

func genCase(t *rapid.T) *fetchCase {
	c := &fetchCase{Units: rapid.IntRange(0, 3).Draw(t, "units") == 0, Own: rapid.Bool().Draw(t, "own"), DiffB: rapid.Bool().Draw(t, "diffbase"), Format: rapid.SampledFrom([]string{"proto", "proto", "raw", "top"}).Draw(t, "format")}
	c.N = rapid.OneOf(rapid.SampledFrom(sizes), rapid.IntRange(1, 12)).Draw(t, "n")
	if rapid.IntRange(0, 3).Draw(t, "hasbase") == 0 {
		c.NB = rapid.OneOf(rapid.SampledFrom([]int{1, 2, 129}), rapid.IntRange(1, 4)).Draw(t, "nb")
	}
	mode := rapid.IntRange(0, 4).Draw(t, "failmode") // 0 none, 1 few, 2 many, 3 all, 4 the whole first chunk (128) fails
	draw := func(n int, label string) ([]int, []int, []int, []bool) {
		f, da, db, u := make([]int, n), make([]int, n), make([]int, n), make([]bool, n)
		for i := range f {
			switch mode {
			case 1:
				if rapid.IntRange(0, 9).Draw(t, label+"f") == 0 {
					f[i] = rapid.IntRange(1, 7).Draw(t, label+"kind")
				}
			case 2:
				if rapid.Bool().Draw(t, label+"f") {
					f[i] = rapid.IntRange(1, 7).Draw(t, label+"kind")
				}
			case 3:
				f[i] = rapid.IntRange(1, 7).Draw(t, label+"kind")
			case 4:
				if i < 128 && n > 128 {
					f[i] = rapid.IntRange(1, 7).Draw(t, label+"kind")
				}
			}
			da[i] = rapid.IntRange(0, 3).Draw(t, label+"da")
			db[i] = rapid.IntRange(0, 3).Draw(t, label+"db")
			u[i] = rapid.Bool().Draw(t, label+"url")
		}
		return f, da, db, u
	}
	var ua, ub []bool
	var dab, dbb []int
	c.Fail, c.DelayA, c.DelayB, ua = draw(c.N, "s")
	c.FailB, dab, dbb, ub = draw(c.NB, "b")
	c.URL = append(ua, ub...)
	c.DelayA = append(c.DelayA, dab...)
	c.DelayB = append(c.DelayB, dbb...)
	return c
}

// mkProfile gives source i its own comment, its own stack and a stack shared with everyone.
var unitCycle = []string{"seconds", "nanoseconds", "milliseconds"}
var unitFactor = map[string]int64{"seconds": 1e9, "milliseconds": 1e6, "nanoseconds": 1, "count": 1}

func mkProfile(i int, base bool, units bool) *profile.Profile {
	fn := &profile.Function{ID: 1, Name: "shared", SystemName: "shared", Filename: "s.go"}
	own := &profile.Function{ID: 2, Name: fmt.Sprintf("own%d", i), SystemName: fmt.Sprintf("own%d", i), Filename: "o.go"}
	m := &profile.Mapping{ID: 1, Start: 0x400000, Limit: 0x500000, File: "/bin/app", HasFunctions: true}
	l1 := &profile.Location{ID: 1, Mapping: m, Address: 0x400100, Line: []profile.Line{{Function: fn, Line: 1}}}
	l2 := &profile.Location{ID: 2, Mapping: m, Address: 0x401000 + uint64(i)*16, Line: []profile.Line{{Function: own, Line: int64(i + 1)}}}
	tag := "src"
	if base {
		tag = "base"
	}
	st := &profile.ValueType{Type: "samples", Unit: "count"}
	if units {
		st = &profile.ValueType{Type: "wall", Unit: unitCycle[i%len(unitCycle)]}
	}
	return &profile.Profile{
		SampleType: []*profile.ValueType{st},
		PeriodType: &profile.ValueType{Type: "cpu", Unit: "nanoseconds"}, Period: 1,
		Comments: []string{fmt.Sprintf("%s-%03d", tag, i)},
		Mapping:  []*profile.Mapping{m}, Function: []*profile.Function{fn, own}, Location: []*profile.Location{l1, l2},
		Sample:     []*profile.Sample{{Location: []*profile.Location{l1}, Value: []int64{int64(i%5 + 1)}}, {Location: []*profile.Location{l2, l1}, Value: []int64{int64(i + 1)}}},
		DropFrames: fmt.Sprintf("dropme%d", i),
	}
}

type rt struct {
	mu    sync.Mutex
	resp  map[string]func() (*http.Response, error)
	delay map[string]time.Duration
}

func (r *rt) RoundTrip(req *http.Request) (*http.Response, error) {
	key := req.URL.Path
	r.mu.Lock()
	f := r.resp[key]
	d := r.delay[key]
	r.mu.Unlock()
	time.Sleep(d)
	if f == nil {
		return nil, fmt.Errorf("no such host path %s", key)
	}
	resp, err := f()
	if resp != nil {
		resp.Request = req
	}
	return resp, err
}

func httpResp(code int, body []byte) (*http.Response, error) {
	return &http.Response{StatusCode: code, Status: fmt.Sprintf("%d status", code), Body: io.NopCloser(bytes.NewReader(body)), Header: http.Header{}}, nil
}

// damaged is a gzip-compressed profile whose stream fails its integrity check (one bit of the CRC-32 trailer
// flipped): the inflated bytes are a perfectly decodable profile, but the source could not be read intact
func damaged(p *profile.Profile) []byte {
	b := serial(p)
	b[len(b)-6] ^= 0x10
	return b
}

func serial(p *profile.Profile) []byte {
	var b bytes.Buffer
	p.Write(&b)
	return b.Bytes()
}

type outcome struct {
	out   string
	err   error
	errs  []string
	panic string
}

func run(c *fetchCase, delays []int, skipFailed bool) outcome {
	dir := filepath.Join(os.Getenv("VERIF_SCRATCH"), "c16")
	os.RemoveAll(dir)
	os.MkdirAll(dir, 0o755)
	srcs := map[string]*pp.Source{}
	tr := &rt{resp: map[string]func() (*http.Response, error){}, delay: map[string]time.Duration{}}
	var args, bases []string
	add := func(i, idx int, fail int, base bool) {
		if skipFailed && fail != 0 {
			return
		}
		p := mkProfile(i, base, c.Units)
		tag := "s"
		if base {
			tag = "b"
		}
		name := fmt.Sprintf("%s%03d", tag, i)
		d := time.Duration(delays[idx]) * 300 * time.Microsecond
		if c.Own {
			if c.URL[idx] {
				name = "http://pproftest.local/" + name
				path := "/" + fmt.Sprintf("%s%03d", tag, i)
				tr.delay[path] = d
				switch fail {
				case 0:
					tr.resp[path] = func() (*http.Response, error) { return httpResp(200, serial(p)) }
				case 1:
					tr.resp[path] = func() (*http.Response, error) { return nil, fmt.Errorf("scripted: connection refused") }
				case 2:
					tr.resp[path] = func() (*http.Response, error) { return httpResp(200, []byte("<html>not a profile</html>")) }
				case 3, 5, 6:
					tr.resp[path] = func() (*http.Response, error) { return httpResp(500, []byte("boom")) }
				case 7:
					tr.resp[path] = func() (*http.Response, error) { return httpResp(200, damaged(p)) }
				default:
					tr.resp[path] = func() (*http.Response, error) { return httpResp(404, []byte("nope")) }
				}
			} else {
				name = filepath.Join(dir, name+".pb.gz")
				switch fail {
				case 0:
					os.WriteFile(name, serial(p), 0o644)
				case 2, 3, 5, 6:
					os.WriteFile(name, []byte("garbage that is no profile"), 0o644)
				case 7:
					os.WriteFile(name, damaged(p), 0o644)
				default: // missing file
				}
			}
		} else {
			s := &pp.Source{Prof: p, Gate: func(string) { time.Sleep(d) }}
			switch fail {
			case 1, 4:
				s.Err = fmt.Errorf("scripted: fetch of %s failed", name)
			case 2:
				s.Prof, s.Data = nil, []byte("garbage that is no profile")
			case 3:
				// valid encoding, invalid profile: two values for one sample type
				s.Prof = nil
				bad := mkProfile(i, base, c.Units)
				bad.Sample[0].Value = []int64{1, 2}
				var b bytes.Buffer
				bad.WriteUncompressed(&b)
				s.Data = b.Bytes()
			case 7:
				s.Prof, s.Data = nil, damaged(p)
			case 5:
				// the plug-in hands over a profile object that is not valid (two values for one sample type)
				bad := mkProfile(i, base, c.Units)
				bad.Sample[0].Value = []int64{1, 2}
				s.Prof = bad
			case 6:
				// ... or one whose sample has fewer values than there are sample types
				bad := mkProfile(i, base, c.Units)
				bad.Sample[0].Value = []int64{}
				s.Prof = bad
			}
			srcs[name] = s
		}
		if base {
			bases = append(bases, name)
		} else {
			args = append(args, name)
		}
	}
	for i := 0; i < c.N; i++ {
		add(i, i, c.Fail[i], false)
	}
	for i := 0; i < c.NB; i++ {
		add(i, c.N+i, c.FailB[i], true)
	}
	if len(args) == 0 {
		return outcome{err: fmt.Errorf("no sources")}
	}
	lists := map[string][]string{}
	if len(bases) > 0 {
		if c.DiffB {
			lists["diff_base"] = bases
		} else {
			lists["base"] = bases
		}
	}
	fl := map[string]string{c.Format: "true", "output": "out", "trim": "false"}
	res := pp.Run(pp.Req{Flags: fl, Lists: lists, Args: args, Sources: srcs, NoFetch: c.Own, RT: tr})
	_, errs := res.UI.Snapshot()
	out := res.Out("out")
	if c.Format == "proto" && res.Err == nil {
		if p, err := profile.ParseData([]byte(out)); err == nil {
			var b bytes.Buffer
			p.WriteUncompressed(&b)
			out = b.String()
		}
	}
	return outcome{out: out, err: res.Err, errs: errs, panic: res.Panic}
}

func check(c *fetchCase, o *vk.Obs) []string {
	var e vk.Errs
	a := run(c, c.DelayA, false)
	if a.panic != "" {
		return []string{"pprof panicked: " + a.panic}
	}
	okS, okB := 0, 0
	for _, f := range c.Fail {
		if f == 0 {
			okS++
		}
	}
	for _, f := range c.FailB {
		if f == 0 {
			okB++
		}
	}
	o.LabelIf(c.N > 128, "crosses-chunk")
	o.LabelIf(c.Own, "own-fetcher")
	o.LabelIf(!c.Own, "plugin-fetcher")
	o.LabelIf(c.NB > 0, "bases")
	o.LabelIf(okS < c.N, "source-failures")
	o.LabelIf(okS == 0, "all-sources-fail")
	o.NonTrivial = (okS >= 2 && okS < c.N) || c.N > 128
	wantErr := okS == 0 || (c.NB > 0 && okB == 0)
	if wantErr {
		if a.err == nil {
			e.Addf("no source (or no base) could be fetched (%d/%d sources, %d/%d bases ok) but pprof reported success", okS, c.N, okB, c.NB)
		}
		return e
	}
	if a.err != nil {
		e.Addf("%d of %d sources and %d of %d bases are fine, yet pprof failed: %v", okS, c.N, okB, c.NB, a.err)
		return e
	}
	// one error line per failed source naming it, plus the summary line
	count := func(fails []int, tag string) {
		for i, f := range fails {
			name := fmt.Sprintf("%s%03d", tag, i)
			n := 0
			for _, l := range a.errs {
				if strings.Contains(l, name) && !strings.HasPrefix(l, "Fetched") && !strings.HasPrefix(l, "Generating") {
					n++
				}
			}
			if f != 0 && n != 1 {
				e.Addf("failed source %s is mentioned in %d error lines, want exactly 1: %q", name, n, a.errs)
			}
			if f == 0 && n != 0 {
				e.Addf("source %s was fetched fine but appears in an error line: %q", name, a.errs)
			}
		}
	}
	count(c.Fail, "s")
	count(c.FailB, "b")
	summary := func(ok, n int, what string) {
		want := fmt.Sprintf("Fetched %d %s profiles out of %d", ok, what, n)
		found := false
		for _, l := range a.errs {
			if l == want {
				found = true
			}
		}
		if ok != n && !found {
			e.Addf("missing summary line %q in %q", want, a.errs)
		}
		if ok == n {
			for _, l := range a.errs {
				if strings.HasPrefix(l, "Fetched") && strings.Contains(l, what) {
					e.Addf("unexpected summary line %q although every %s profile was fetched", l, what)
				}
			}
		}
	}
	summary(okS, c.N, "source")
	summary(okB, c.NB, "base")
	// content: exactly the successful sources, in command-line order
	if c.Format == "proto" {
		p, err := profile.ParseData([]byte(a.out))
		if err != nil {
			e.Addf("-proto output does not parse: %v", err)
			return e
		}
		want := model.Canon{}
		var wantComments []string
		first := -1
		for i, f := range c.Fail {
			if f == 0 {
				if first < 0 {
					first = i
				}
				sp := mkProfile(i, false, c.Units)
				for _, s := range sp.Sample {
					want.Add(model.StackKey(s, true), s.Value, unitFactor[sp.SampleType[0].Unit])
				}
				wantComments = append(wantComments, fmt.Sprintf("src-%03d", i))
			}
		}
		for i, f := range c.FailB {
			if f == 0 {
				bp := mkProfile(i, true, c.Units)
				for _, s := range bp.Sample {
					if c.DiffB {
						s.Label = map[string][]string{"pprof::base": {"true"}}
					}
					want.Add(model.StackKey(s, true), s.Value, -unitFactor[bp.SampleType[0].Unit])
				}
				wantComments = append(wantComments, fmt.Sprintf("base-%03d", i))
			}
		}
		want = want.DropZero()
		got := model.Canon{}
		for _, s := range p.Sample {
			// values in base units of the sample type (the merge converts to the finest unit among its inputs)
			got.Add(model.StackKey(s, true), s.Value, unitFactor[p.SampleType[0].Unit])
		}
		got = got.DropZero()
		if !want.Equal(got) {
			e.Addf("the merged profile is not the sum of exactly the sources that could be fetched (%d/%d ok, %d/%d bases):\n%s", okS, c.N, okB, c.NB, want.Diff(got))
		}
		if strings.Join(p.Comments, ",") != strings.Join(wantComments, ",") {
			e.Addf("sources were not combined in command-line order: comments are %.200q, want %.200q", p.Comments, wantComments)
		}
		if want := fmt.Sprintf("dropme%d", first); p.DropFrames != want {
			e.Addf("header fields come from %q, the first successfully fetched source has %q", p.DropFrames, want)
		}
	}
	// metamorphic: another completion order
	b := run(c, c.DelayB, false)
	if b.panic != "" {
		return append(e, "pprof panicked: "+b.panic)
	}
	if (a.err == nil) != (b.err == nil) || a.out != b.out {
		e.Addf("-%s depends on the order in which the fetches complete (%d sources)", c.Format, c.N)
	}
	if fmt.Sprint(sorted(a.errs)) != fmt.Sprint(sorted(b.errs)) {
		e.Addf("error lines depend on the completion order: %q vs %q", a.errs, b.errs)
	}
	// metamorphic: the failing sources simply left off the command line
	if okS < c.N || okB < c.NB {
		s := run(c, c.DelayA, true)
		if s.panic != "" {
			return append(e, "pprof panicked: "+s.panic)
		}
		if s.err != nil || s.out != a.out {
			e.Addf("the report differs from the one obtained without the failing sources on the command line (err=%v)", s.err)
		}
	}
	return e
}

func sorted(s []string) []string {
	o := append([]string{}, s...)
	for i := range o {
		for j := i + 1; j < len(o); j++ {
			if o[j] < o[i] {
				o[i], o[j] = o[j], o[i]
			}
		}
	}
	return o
}

func TestPropFetch(t *testing.T) {
	vk.Main(t, vk.Spec[fetchCase]{ID: "C16", Facet: "fetch", Quick: 600, Thorough: 3000, Gen: genCase, Check: check, Journal: true,
		Rule: "source lists of 1..300 (sizes biased to 1,2,127,128,129,130,255,256,257,300) and base lists of 0..129 (-base or -diff_base), every source with its own comment, header and stack, in a quarter of the cases with the sample type in a different unit per source (s, ns, ms); failure subsets (none/few/many/all/the whole first chunk of 128) of kinds {fetcher error or missing file, garbage body, invalid-but-decodable profile or HTTP 500, HTTP 404, invalid profile object handed over by the plug-in (too many or too few values per sample), gzip body that inflates to a good profile but fails its checksum}; through the Fetcher plug-in or through pprof's own file/HTTP fetcher with a scripted RoundTripper; per-source delays perturb the completion order; oracle: canonical sum of exactly the successful sources minus bases, comments and header precedence in command-line order, one error line per failed source plus the 'Fetched k of n' line, error iff nothing (or no base) could be fetched, byte-identical output under a second completion order and with the failing sources left off; non-trivial = >=2 successes and >=1 failure, or a list crossing 128"})
}

// ---- facet tls: which https sources make it into the merge ----

func genTLS(t *rapid.T) *tlsfix.Case {
	n := rapid.SampledFrom([]int{2, 3, 8, 130}).Draw(t, "n")
	c := &tlsfix.Case{N: n, Insecure: rapid.IntRange(0, n-1).Draw(t, "insecure"), SlowMs: rapid.SampledFrom([]int{0, 0, 30}).Draw(t, "slow")}
	c.Secure = (c.Insecure + 1 + rapid.IntRange(0, n-2).Draw(t, "secureoff")) % n
	if n == 130 && rapid.Bool().Draw(t, "spread") {
		c.Insecure, c.Secure = rapid.IntRange(0, 127).Draw(t, "ins0"), 128+rapid.IntRange(0, 1).Draw(t, "sec1") // different chunks of 128
	}
	return c
}

func TestPropTLS(t *testing.T) {
	vk.Main(t, vk.Spec[tlsfix.Case]{ID: "C16", Facet: "tls", Quick: 40, Thorough: 300, Gen: genTLS, Check: tlsfix.Check, CaseTimeout: 120 * time.Second,
		Rule: "2..130 sources fetched over loopback HTTP with pprof's own transport: one given as https+insecure://, one as https:// to the same server (self-signed certificate), the rest plain http, at drawn positions (same or different chunk of 128), the insecure answer optionally held back 30 ms; oracle: the insecure source and every plain source are in the report, the https:// source is not; every case is non-trivial"})
}
