package c11

import (
	"fmt"
	"regexp"
	"strings"
	"testing"

	"github.com/google/pprof/profile"
	"github.com/google/pprof/xverif/gen"
	"github.com/google/pprof/xverif/model"
	"github.com/google/pprof/xverif/pp"
	"github.com/google/pprof/xverif/vk"
	"pgregory.net/rapid"
)

type pruneCase struct {
	P         *gen.Prof
	Drop      string
	Keep      string
	PruneFrom string
	Mode      int // 0 RemoveUninteresting, 1 Prune(anchored rx), 2 driver -proto (drop_frames inside the profile), 3 PruneFrom, 4 driver -prune_from, 5 interactive session, "proto >out"
}

var namePool = []string{"main", "foo", ".foo", "foo(int)", "foo(int, char)", "bar", "ns::(anonymous namespace)::f", "ns::(anonymous namespace)::f(int)", "T::operator()(x)", "ns::(anonymous namespace)::Cmp::operator()(int, int)", "(anonymous namespace)::(anonymous namespace)::g(char)",
	"T::operator()", "runtime.mallocgc", "runtime.goexit", "malloc", "calloc", "tc_new", "arena_calloc_zeroed", "start_thread", "__clone", "work", ""}

var opts = gen.Opts{Alpha: gen.Plain, MaxSamples: 6, MaxDepth: 5, MaxLines: 3, MinTypes: 1, MaxTypes: 2, AnyIDs: true, NoHugeIDs: true,
	Labels: true, NumLabels: true, EmptyStacks: true, NoMapping: true, Unsym: true, Unused: true}

func simplify(f string) string {
	s := strings.TrimPrefix(f, ".")
	for i := 0; i < len(s); {
		switch {
		case strings.HasPrefix(s[i:], "(anonymous namespace)"):
			i += len("(anonymous namespace)")
		case strings.HasPrefix(s[i:], "operator()"):
			i += len("operator()")
		case s[i] == '(':
			return s[:i]
		default:
			i++
		}
	}
	return s
}

func genExpr(t *rapid.T, names []string, label string) string {
	pick := func() string {
		n := simplify(rapid.SampledFrom(names).Draw(t, label+"n"))
		if n == "" {
			n = "zzz"
		}
		return n
	}
	switch rapid.IntRange(0, 6).Draw(t, label+"form") {
	case 0:
		return regexp.QuoteMeta(pick())
	case 1:
		return regexp.QuoteMeta(pick()) + "|" + regexp.QuoteMeta(pick())
	case 2:
		return regexp.QuoteMeta(pick()) + "|" + regexp.QuoteMeta(pick()) + "|" + regexp.QuoteMeta(pick())
	case 3:
		n := pick()
		return regexp.QuoteMeta(n[:1]) + ".*"
	case 4:
		n := pick()
		return ".*" + regexp.QuoteMeta(n[len(n)/2:])
	case 5:
		return "runtime\\..*|" + regexp.QuoteMeta(pick())
	}
	return "zzz_nomatch"
}

func genCase(t *rapid.T) *pruneCase {
	p := gen.Profile(t, opts)
	// rename functions from the pool that interacts with simplification
	sub := rapid.SliceOfNDistinct(rapid.SampledFrom(namePool), 1, 4, rapid.ID[string]).Draw(t, "subpool")
	// substring families: names that merely contain another name must not match an anchored expression
	base := simplify(rapid.SampledFrom(sub).Draw(t, "familybase"))
	if base != "" && rapid.Bool().Draw(t, "family") {
		sub = append(sub, "x_"+base, base+"_x", "x_"+base+"_x")
	}
	for i := range p.Functions {
		p.Functions[i].Name = rapid.SampledFrom(sub).Draw(t, "fname")
	}
	var names []string
	for _, f := range p.Functions {
		names = append(names, f.Name)
	}
	names = append(names, "main", "zzz")
	c := &pruneCase{P: p, Mode: rapid.IntRange(0, 5).Draw(t, "mode")}
	if rapid.IntRange(0, 9).Draw(t, "hasdrop") != 0 {
		c.Drop = genExpr(t, names, "drop")
		if rapid.IntRange(0, 1).Draw(t, "haskeep") == 0 {
			c.Keep = genExpr(t, names, "keep")
		}
	}
	c.PruneFrom = genExpr(t, names, "pf")
	if rapid.IntRange(0, 30).Draw(t, "bad") == 0 {
		c.Drop = "foo(" // invalid expression
	}
	return c
}

type frame struct {
	Name, File string
	Line       int64
	Addr       uint64
	HasFn      bool
	loc        *profile.Location
	li         int
}

// frames root first
func framesRootFirst(s *profile.Sample) []frame {
	var out []frame
	for i := len(s.Location) - 1; i >= 0; i-- {
		l := s.Location[i]
		if len(l.Line) == 0 {
			out = append(out, frame{Addr: l.Address, loc: l, li: -1})
			continue
		}
		for j := len(l.Line) - 1; j >= 0; j-- {
			ln := l.Line[j]
			out = append(out, frame{Name: ln.Function.Name, File: ln.Function.Filename, Line: ln.Line, Addr: l.Address, HasFn: true, loc: l, li: j})
		}
	}
	return out
}

func fstr(fr []frame) string {
	var p []string
	for _, f := range fr {
		p = append(p, fmt.Sprintf("%q:%d@%x", f.Name, f.Line, f.Addr))
	}
	return strings.Join(p, " > ")
}

// wantPrune: remove the first frame, scanning from the root after at least one non-matching frame,
// whose simplified name fully matches drop and not keep, with everything on its leaf side.
func wantPrune(fr []frame, drop, keep *regexp.Regexp) ([]frame, int) {
	match := func(f frame) bool {
		if !f.HasFn || f.Name == "" {
			return false
		}
		n := simplify(f.Name)
		return drop.MatchString(n) && (keep == nil || !keep.MatchString(n))
	}
	user := false
	for i, f := range fr {
		if !match(f) {
			user = true
			continue
		}
		if user {
			return fr[:i], i
		}
	}
	return fr, -1
}

// wantPruneFrom: keep the lowest (leaf-most) matching frame, drop what lies on its leaf side.
func wantPruneFrom(fr []frame, rx *regexp.Regexp) []frame {
	for i := len(fr) - 1; i >= 0; i-- {
		f := fr[i]
		if f.HasFn && f.Name != "" && rx.MatchString(simplify(f.Name)) {
			return fr[:i+1]
		}
	}
	return fr
}

func anchored(s string) (*regexp.Regexp, error) { return regexp.Compile("^(" + s + ")$") }

func check(c *pruneCase, o *vk.Obs) []string {
	var e vk.Errs
	gp := *c.P
	pruneFromMode := c.Mode == 3 || c.Mode == 4
	if !pruneFromMode {
		gp.DropFrames, gp.KeepFrames = c.Drop, c.Keep
	}
	p := gp.Build().Copy()
	before := model.Snap(p, model.SnapOpts{})
	var wantFrames [][]frame
	var cutInlined []bool // the known-finding signature applies to this sample
	orig := p.Copy()
	var drop, keep, pf *regexp.Regexp
	var cerr error
	if !pruneFromMode && c.Drop != "" {
		drop, cerr = anchored(c.Drop)
		if cerr == nil && c.Keep != "" {
			keep, cerr = anchored(c.Keep)
		}
	}
	if pruneFromMode {
		pf, cerr = regexp.Compile(c.PruneFrom)
	}
	o.Label([]string{"RemoveUninteresting", "Prune", "driver-drop_frames", "PruneFrom", "driver-prune_from", "interactive-drop_frames"}[c.Mode])
	if cerr != nil {
		o.Label("invalid-expression")
		switch c.Mode {
		case 0:
			if err := p.RemoveUninteresting(); err == nil {
				e.Addf("RemoveUninteresting accepted the invalid expression %q", c.Drop)
			}
		case 2, 5:
			res := pp.Run(pp.Req{Flags: map[string]string{"proto": "true", "output": "out"}, Args: []string{"src"}, Sources: map[string]*pp.Source{"src": {Prof: p}}})
			if res.Panic != "" {
				e.Addf("pprof panicked: %s", res.Panic)
			}
		}
		return e
	}
	anyCut, anyKept, inlineMid, shared, rootMatch := false, false, false, false, false
	usedBy := map[*profile.Location]int{}
	for _, s := range orig.Sample {
		seen := map[*profile.Location]bool{}
		for _, l := range s.Location {
			if !seen[l] {
				usedBy[l]++
			}
			seen[l] = true
		}
	}
	for _, s := range orig.Sample {
		fr := framesRootFirst(s)
		w := fr
		sig := false
		switch {
		case pruneFromMode:
			w = wantPruneFrom(fr, pf)
			// signature of the recorded finding (in-place trimming): PruneFrom cuts, in every sample, the
			// lines of a location that lie leaf-side of the location's innermost match. That is what the
			// statement asks for only at the sample's lowest matching location; the finding applies when a
			// location that gets trimmed (innermost match above its innermost line) occurs in this sample
			// on the root side of the sample's lowest matching location.
			lowest := -1 // index into s.Location (leaf first) of the lowest matching location
			inner := func(l *profile.Location) int {
				for i, ln := range l.Line {
					if ln.Function.Name != "" && pf.MatchString(simplify(ln.Function.Name)) {
						return i
					}
				}
				return -1
			}
			for j, l := range s.Location {
				if inner(l) >= 0 {
					lowest = j
					break
				}
			}
			for j, l := range s.Location {
				if lowest >= 0 && j > lowest && inner(l) > 0 {
					sig = true
				}
			}
		case drop != nil:
			var cut int
			w, cut = wantPrune(fr, drop, keep)
			if cut >= 0 && fr[cut].li >= 0 && len(fr[cut].loc.Line) > 1 {
				inlineMid = true
			}
			if len(fr) > 0 && fr[0].HasFn && fr[0].Name != "" && drop.MatchString(simplify(fr[0].Name)) {
				rootMatch = true
			}
			sig = pruneSig(s, drop, keep)
		}
		if len(w) != len(fr) {
			anyCut = true
		} else {
			anyKept = true
		}
		for _, l := range s.Location {
			if usedBy[l] > 1 {
				shared = true
			}
		}
		wantFrames = append(wantFrames, w)
		cutInlined = append(cutInlined, sig)
	}
	o.LabelIf(inlineMid, "match-in-inlined-location")
	o.LabelIf(shared, "shared-location")
	o.LabelIf(rootMatch, "root-match")
	o.LabelIf(drop == nil && !pruneFromMode, "no-expressions")
	o.NonTrivial = anyCut && anyKept

	// A profile whose expressions were cleared after it had been serialized once (the encoder keeps scratch
	// indices on the profile): its copy has no expressions and pruning leaves it untouched.
	if drop != nil && c.Mode <= 1 {
		q := orig.Copy()
		_ = q.Copy() // first serialization, with the expressions
		q.DropFrames, q.KeepFrames = "", ""
		r := q.Copy()
		if r.DropFrames != "" || r.KeepFrames != "" {
			e.Addf("drop_frames/keep_frames were cleared after a first serialization, yet the copy carries drop_frames=%q keep_frames=%q", r.DropFrames, r.KeepFrames)
		}
		beforeR := model.Snap(r, model.SnapOpts{})
		if err := r.RemoveUninteresting(); err != nil {
			e.Addf("RemoveUninteresting on a profile without expressions: %v", err)
		} else if model.Snap(r, model.SnapOpts{}) != beforeR {
			e.Addf("a profile whose drop_frames were cleared (after one serialization) was pruned all the same")
		}
	}
	var got *profile.Profile
	if c.Mode == 0 || c.Mode == 1 || c.Mode == 3 {
		// the object has been serialized once before the rule is applied (a fetched profile is saved first)
		_ = p.Copy()
	}
	switch c.Mode {
	case 0:
		if err := p.RemoveUninteresting(); err != nil {
			e.Addf("RemoveUninteresting: %v", err)
			return e
		}
		got = p
	case 1:
		if drop != nil {
			p.Prune(drop, keep)
		}
		got = p
	case 3:
		p.PruneFrom(pf)
		got = p
	case 2, 4, 5:
		fl := map[string]string{"proto": "true", "output": "out"}
		if c.Mode == 4 {
			fl["prune_from"] = c.PruneFrom
		}
		req := pp.Req{Flags: fl, Args: []string{"src"}, Sources: map[string]*pp.Source{"src": {Prof: p}}}
		if c.Mode == 5 {
			// the interactive shell is a separate entry point: it keeps its own copy of the profile
			req = pp.Req{Args: []string{"src"}, Sources: map[string]*pp.Source{"src": {Prof: p}}, Lines: []string{"proto >out"}}
		}
		res := pp.Run(req)
		if res.Panic != "" {
			return []string{"pprof panicked: " + res.Panic}
		}
		if res.Err != nil {
			e.Addf("pprof -proto failed: %v", res.Err)
			return e
		}
		var err error
		got, err = profile.ParseData([]byte(res.Out("out")))
		if err != nil {
			e.Addf("pprof -proto output does not parse: %v", err)
			return e
		}
	}
	if c.Mode == 0 || c.Mode == 1 || c.Mode == 3 {
		// ... and is serialized again afterwards: the copy has the stacks the pruned object has
		cp := got.Copy()
		for i := range got.Sample {
			if i < len(cp.Sample) && fstr(framesRootFirst(cp.Sample[i])) != fstr(framesRootFirst(got.Sample[i])) {
				e.Addf("sample %d: a copy taken after pruning (the object had been serialized once before) has frames %s, the pruned object has %s", i, fstr(framesRootFirst(cp.Sample[i])), fstr(framesRootFirst(got.Sample[i])))
				break
			}
		}
	}
	if drop == nil && !pruneFromMode && c.Mode <= 1 {
		if s := model.Snap(got, model.SnapOpts{}); s != before {
			e.Addf("profile without drop_frames was modified")
		}
	}
	if len(got.Sample) != len(orig.Sample) {
		e.Addf("number of samples changed from %d to %d", len(orig.Sample), len(got.Sample))
		return e
	}
	for i, s := range got.Sample {
		os := orig.Sample[i]
		if fmt.Sprint(s.Value) != fmt.Sprint(os.Value) {
			e.Addf("sample %d: values changed", i)
		}
		if model.LabelString(s, true) != model.LabelString(os, true) {
			e.Addf("sample %d: labels changed", i)
		}
		g := framesRootFirst(s)
		if len(framesRootFirst(os)) > 0 && len(g) == 0 {
			e.Addf("sample %d had frames and became empty (drop=%q keep=%q prune_from=%q)", i, c.Drop, c.Keep, c.PruneFrom)
			continue
		}
		if fstr(g) != fstr(wantFrames[i]) {
			sigName := "C11-prune-location-granularity"
			if pruneFromMode {
				sigName = "C11-prunefrom-shared-trim"
			}
			if cutInlined[i] && vk.Known(sigName) {
				o.Exclude(sigName)
				continue
			}
			e.Addf("sample %d (drop=%q keep=%q prune_from=%q mode=%d): frames root first\n   had  %s\n   want %s\n   got  %s", i, c.Drop, c.Keep, c.PruneFrom, c.Mode, fstr(framesRootFirst(os)), fstr(wantFrames[i]), fstr(g))
		}
	}
	return e
}

func TestPropPrune(t *testing.T) {
	vk.Main(t, vk.Spec[pruneCase]{ID: "C11", Facet: "prune", Quick: 15000, Thorough: 60000, Gen: genCase, Check: check, Journal: true,
		Rule: "generated profiles whose function names come from a pool built to interact with name simplification (.foo, foo(int), (anonymous namespace), operator(), runtime.*) x drop/keep/prune_from expressions built from the same names (literals, 2- and 3-way alternations, prefix.*, .*suffix, invalid) x entry point (RemoveUninteresting, Prune, driver with drop_frames, PruneFrom, driver -prune_from, interactive session); oracle: frame-level reference model written from the statement + frame conditions (sample count, values, labels, untouched without expressions, never empty); non-trivial = the rule removes frames from some sample and leaves another untouched"})
}

// pruneSig: signature of the recorded finding C11-prune-location-granularity. Prune decides per location
// and trims a location's lines in place. Frame by frame that is what the statement asks for whenever the
// location comes after a location without any match (a "user" location); the finding applies when a
// multi-line location with a matching line occurs in the sample before (root side of) the first location
// that has no match - it is trimmed although no pruning happens there, and its non-matching outer lines
// are not counted as user frames.
func pruneSig(s *profile.Sample, drop, keep *regexp.Regexp) bool {
	hasMatch := func(l *profile.Location) bool {
		for _, ln := range l.Line {
			n := simplify(ln.Function.Name)
			if ln.Function.Name != "" && drop.MatchString(n) && (keep == nil || !keep.MatchString(n)) {
				return true
			}
		}
		return false
	}
	for j := len(s.Location) - 1; j >= 0; j-- { // root first
		l := s.Location[j]
		if !hasMatch(l) {
			break
		}
		if len(l.Line) >= 2 {
			return true
		}
	}
	return false
}

// ---- facet merged: drop/keep expressions must survive the merge that precedes pruning ----

// checkMerged gives the driver the same profile twice: the sources are merged first and the merged
// profile is pruned with the drop/keep expressions it inherited. Expected: every stack pruned as the
// reference model says, every value doubled.
func checkMerged(c *pruneCase, o *vk.Obs) []string {
	var e vk.Errs
	gp := *c.P
	gp.DropFrames, gp.KeepFrames = c.Drop, c.Keep
	p := gp.Build().Copy()
	dropExpr := c.Drop
	if dropExpr == "" {
		// no expression in the first source: nothing is pruned, whatever the second source says
		dropExpr = "zzz_nothing_matches_this"
	}
	drop, err := anchored(dropExpr)
	if err != nil {
		return nil
	}
	var keep *regexp.Regexp
	if c.Keep != "" {
		if keep, err = anchored(c.Keep); err != nil {
			return nil
		}
	}
	want := map[string][]int64{}
	cut, both := false, false
	for _, s := range p.Sample {
		if pruneSig(s, drop, keep) {
			if vk.Known("C11-prune-location-granularity") {
				o.Exclude("C11-prune-location-granularity")
				return nil
			}
		}
		fr := framesRootFirst(s)
		w, _ := wantPrune(fr, drop, keep)
		if len(w) != len(fr) {
			cut = true
		}
		for _, f := range fr {
			n := simplify(f.Name)
			if f.HasFn && f.Name != "" && keep != nil && drop.MatchString(n) && keep.MatchString(n) {
				both = true
			}
		}
		k := mkey(w) + " " + model.LabelString(s, true)
		if want[k] == nil {
			want[k] = make([]int64, len(s.Value))
		}
		for i, v := range s.Value {
			want[k][i] += 2 * v
		}
	}
	o.LabelIf(both, "frame-matching-drop-and-keep")
	o.NonTrivial = cut
	// the second source is the same profile, in two thirds of the cases with other expressions in its header:
	// the merged profile takes drop_frames and keep_frames from the first source, both of them
	p2 := p.Copy()
	switch c.Mode % 3 {
	case 1:
		p2.DropFrames, p2.KeepFrames = "", ".*"
		o.Label("second-source-keeps-everything")
	case 2:
		p2.DropFrames, p2.KeepFrames = ".*", ""
		o.Label("second-source-drops-everything")
	}
	res := pp.Run(pp.Req{Flags: map[string]string{"proto": "true", "output": "out"}, Args: []string{"src", "src2"}, Sources: map[string]*pp.Source{"src": {Prof: p}, "src2": {Prof: p2}}})
	if res.Panic != "" {
		return []string{"pprof panicked: " + res.Panic}
	}
	if res.Err != nil {
		e.Addf("pprof -proto of two sources failed: %v", res.Err)
		return e
	}
	out, err := profile.ParseData([]byte(res.Out("out")))
	if err != nil {
		return []string{"pprof -proto output does not parse: " + err.Error()}
	}
	got := map[string][]int64{}
	for _, s := range out.Sample {
		k := mkey(framesRootFirst(s)) + " " + model.LabelString(s, true)
		if got[k] == nil {
			got[k] = make([]int64, len(s.Value))
		}
		for i, v := range s.Value {
			got[k][i] += v
		}
	}
	zero := func(v []int64) bool {
		for _, x := range v {
			if x != 0 {
				return false
			}
		}
		return true
	}
	for k, v := range want {
		if zero(v) {
			continue
		}
		if fmt.Sprint(got[k]) != fmt.Sprint(v) {
			e.Addf("two merged sources, drop=%q keep=%q: stack %s should carry %v after pruning, got %v", c.Drop, c.Keep, k, v, got[k])
		}
	}
	for k, v := range got {
		if _, ok := want[k]; !ok && !zero(v) {
			e.Addf("two merged sources, drop=%q keep=%q: unexpected stack %s with %v", c.Drop, c.Keep, k, v)
		}
	}
	return e
}

func TestPropMerged(t *testing.T) {
	vk.Main(t, vk.Spec[pruneCase]{ID: "C11", Facet: "merged", Quick: 3000, Thorough: 15000, Gen: genCase, Check: checkMerged, Journal: true,
		Rule: "the prune generator's profiles carrying drop_frames / keep_frames, given to the driver twice as two sources (merge first, then pruning with the inherited expressions), read back through -proto; oracle: every stack pruned as the frame-level reference model says, every value doubled (compared as stack+labels -> summed values); non-trivial = the rule removes at least one frame"})
}

// mkey renders frames without addresses (merging rebases the addresses of unsymbolized frames; that is C03's subject).
func mkey(fr []frame) string {
	var b []string
	for _, f := range fr {
		if !f.HasFn {
			b = append(b, "<unsymbolized>")
			continue
		}
		b = append(b, fmt.Sprintf("%q/%q:%d", f.Name, f.File, f.Line))
	}
	return strings.Join(b, " > ")
}
