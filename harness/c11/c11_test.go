package c11

import (
	"fmt"
	"regexp"
	"strings"
	"testing"

	"github.com/google/pprof/profile"
	"github.com/google/pprof/xverif/gen"
	"github.com/google/pprof/xverif/model"
	"github.com/google/pprof/xverif/pp"
	"github.com/google/pprof/xverif/vk"
	"pgregory.net/rapid"
)

type pruneCase struct {
	P         *gen.Prof
	Drop      string
	Keep      string
	PruneFrom string
	Mode      int // 0 RemoveUninteresting, 1 Prune(anchored rx), 2 driver -proto (drop_frames inside the profile), 3 PruneFrom, 4 driver -prune_from
}

var namePool = []string{"main", "foo", ".foo", "foo(int)", "foo(int, char)", "bar", "ns::(anonymous namespace)::f", "ns::(anonymous namespace)::f(int)", "T::operator()(x)",
	"T::operator()", "runtime.mallocgc", "runtime.goexit", "malloc", "calloc", "tc_new", "arena_calloc_zeroed", "start_thread", "__clone", "work", ""}

var opts = gen.Opts{Alpha: gen.Plain, MaxSamples: 6, MaxDepth: 5, MaxLines: 3, MinTypes: 1, MaxTypes: 2, AnyIDs: true, NoHugeIDs: true,
	Labels: true, NumLabels: true, EmptyStacks: true, NoMapping: true, Unsym: true, Unused: true}

func simplify(f string) string {
	s := strings.TrimPrefix(f, ".")
	for i := 0; i < len(s); {
		switch {
		case strings.HasPrefix(s[i:], "(anonymous namespace)"):
			i += len("(anonymous namespace)")
		case strings.HasPrefix(s[i:], "operator()"):
			i += len("operator()")
		case s[i] == '(':
			return s[:i]
		default:
			i++
		}
	}
	return s
}

func genExpr(t *rapid.T, names []string, label string) string {
	pick := func() string {
		n := simplify(rapid.SampledFrom(names).Draw(t, label+"n"))
		if n == "" {
			n = "zzz"
		}
		return n
	}
	switch rapid.IntRange(0, 6).Draw(t, label+"form") {
	case 0:
		return regexp.QuoteMeta(pick())
	case 1:
		return regexp.QuoteMeta(pick()) + "|" + regexp.QuoteMeta(pick())
	case 2:
		return regexp.QuoteMeta(pick()) + "|" + regexp.QuoteMeta(pick()) + "|" + regexp.QuoteMeta(pick())
	case 3:
		n := pick()
		return regexp.QuoteMeta(n[:1]) + ".*"
	case 4:
		n := pick()
		return ".*" + regexp.QuoteMeta(n[len(n)/2:])
	case 5:
		return "runtime\\..*|" + regexp.QuoteMeta(pick())
	}
	return "zzz_nomatch"
}

func genCase(t *rapid.T) *pruneCase {
	p := gen.Profile(t, opts)
	// rename functions from the pool that interacts with simplification
	sub := rapid.SliceOfNDistinct(rapid.SampledFrom(namePool), 1, 4, rapid.ID[string]).Draw(t, "subpool")
	// substring families: names that merely contain another name must not match an anchored expression
	base := simplify(rapid.SampledFrom(sub).Draw(t, "familybase"))
	if base != "" && rapid.Bool().Draw(t, "family") {
		sub = append(sub, "x_"+base, base+"_x", "x_"+base+"_x")
	}
	for i := range p.Functions {
		p.Functions[i].Name = rapid.SampledFrom(sub).Draw(t, "fname")
	}
	var names []string
	for _, f := range p.Functions {
		names = append(names, f.Name)
	}
	names = append(names, "main", "zzz")
	c := &pruneCase{P: p, Mode: rapid.IntRange(0, 4).Draw(t, "mode")}
	if rapid.IntRange(0, 9).Draw(t, "hasdrop") != 0 {
		c.Drop = genExpr(t, names, "drop")
		if rapid.IntRange(0, 1).Draw(t, "haskeep") == 0 {
			c.Keep = genExpr(t, names, "keep")
		}
	}
	c.PruneFrom = genExpr(t, names, "pf")
	if rapid.IntRange(0, 30).Draw(t, "bad") == 0 {
		c.Drop = "foo(" // invalid expression
	}
	return c
}

type frame struct {
	Name, File string
	Line       int64
	Addr       uint64
	HasFn      bool
	loc        *profile.Location
	li         int
}

// frames root first
func framesRootFirst(s *profile.Sample) []frame {
	var out []frame
	for i := len(s.Location) - 1; i >= 0; i-- {
		l := s.Location[i]
		if len(l.Line) == 0 {
			out = append(out, frame{Addr: l.Address, loc: l, li: -1})
			continue
		}
		for j := len(l.Line) - 1; j >= 0; j-- {
			ln := l.Line[j]
			out = append(out, frame{Name: ln.Function.Name, File: ln.Function.Filename, Line: ln.Line, Addr: l.Address, HasFn: true, loc: l, li: j})
		}
	}
	return out
}

func fstr(fr []frame) string {
	var p []string
	for _, f := range fr {
		p = append(p, fmt.Sprintf("%q:%d@%x", f.Name, f.Line, f.Addr))
	}
	return strings.Join(p, " > ")
}

// wantPrune: remove the first frame, scanning from the root after at least one non-matching frame,
// whose simplified name fully matches drop and not keep, with everything on its leaf side.
func wantPrune(fr []frame, drop, keep *regexp.Regexp) ([]frame, int) {
	match := func(f frame) bool {
		if !f.HasFn || f.Name == "" {
			return false
		}
		n := simplify(f.Name)
		return drop.MatchString(n) && (keep == nil || !keep.MatchString(n))
	}
	user := false
	for i, f := range fr {
		if !match(f) {
			user = true
			continue
		}
		if user {
			return fr[:i], i
		}
	}
	return fr, -1
}

// wantPruneFrom: keep the lowest (leaf-most) matching frame, drop what lies on its leaf side.
func wantPruneFrom(fr []frame, rx *regexp.Regexp) []frame {
	for i := len(fr) - 1; i >= 0; i-- {
		f := fr[i]
		if f.HasFn && f.Name != "" && rx.MatchString(simplify(f.Name)) {
			return fr[:i+1]
		}
	}
	return fr
}

func anchored(s string) (*regexp.Regexp, error) { return regexp.Compile("^(" + s + ")$") }

func check(c *pruneCase, o *vk.Obs) []string {
	var e vk.Errs
	gp := *c.P
	pruneFromMode := c.Mode >= 3
	if !pruneFromMode {
		gp.DropFrames, gp.KeepFrames = c.Drop, c.Keep
	}
	p := gp.Build().Copy()
	before := model.Snap(p, model.SnapOpts{})
	var wantFrames [][]frame
	var cutInlined []bool // the known-finding signature applies to this sample
	orig := p.Copy()
	var drop, keep, pf *regexp.Regexp
	var cerr error
	if !pruneFromMode && c.Drop != "" {
		drop, cerr = anchored(c.Drop)
		if cerr == nil && c.Keep != "" {
			keep, cerr = anchored(c.Keep)
		}
	}
	if pruneFromMode {
		pf, cerr = regexp.Compile(c.PruneFrom)
	}
	o.Label([]string{"RemoveUninteresting", "Prune", "driver-drop_frames", "PruneFrom", "driver-prune_from"}[c.Mode])
	if cerr != nil {
		o.Label("invalid-expression")
		switch c.Mode {
		case 0:
			if err := p.RemoveUninteresting(); err == nil {
				e.Addf("RemoveUninteresting accepted the invalid expression %q", c.Drop)
			}
		case 2:
			res := pp.Run(pp.Req{Flags: map[string]string{"proto": "true", "output": "out"}, Args: []string{"src"}, Sources: map[string]*pp.Source{"src": {Prof: p}}})
			if res.Panic != "" {
				e.Addf("pprof panicked: %s", res.Panic)
			}
		}
		return e
	}
	anyCut, anyKept, inlineMid, shared, rootMatch := false, false, false, false, false
	usedBy := map[*profile.Location]int{}
	for _, s := range orig.Sample {
		seen := map[*profile.Location]bool{}
		for _, l := range s.Location {
			if !seen[l] {
				usedBy[l]++
			}
			seen[l] = true
		}
	}
	for _, s := range orig.Sample {
		fr := framesRootFirst(s)
		w := fr
		sig := false
		switch {
		case pruneFromMode:
			w = wantPruneFrom(fr, pf)
			// signature of the recorded finding: an inlined location with the match above its innermost line
			// occurs in this sample (it is trimmed in place wherever it occurs)
			for _, l := range s.Location {
				for i, ln := range l.Line {
					if i > 0 && ln.Function.Name != "" && pf.MatchString(simplify(ln.Function.Name)) {
						sig = true
					}
				}
			}
		case drop != nil:
			var cut int
			w, cut = wantPrune(fr, drop, keep)
			if cut >= 0 && fr[cut].li >= 0 && len(fr[cut].loc.Line) > 1 {
				inlineMid = true
			}
			if len(fr) > 0 && fr[0].HasFn && fr[0].Name != "" && drop.MatchString(simplify(fr[0].Name)) {
				rootMatch = true
			}
			// signature: a multi-line location of this sample has a matching line (locations are
			// decided and trimmed as a whole)
			for _, l := range s.Location {
				if len(l.Line) < 2 {
					continue
				}
				for _, ln := range l.Line {
					n := simplify(ln.Function.Name)
					if ln.Function.Name != "" && drop.MatchString(n) && (keep == nil || !keep.MatchString(n)) {
						sig = true
					}
				}
			}
		}
		if len(w) != len(fr) {
			anyCut = true
		} else {
			anyKept = true
		}
		for _, l := range s.Location {
			if usedBy[l] > 1 {
				shared = true
			}
		}
		wantFrames = append(wantFrames, w)
		cutInlined = append(cutInlined, sig)
	}
	o.LabelIf(inlineMid, "match-in-inlined-location")
	o.LabelIf(shared, "shared-location")
	o.LabelIf(rootMatch, "root-match")
	o.LabelIf(drop == nil && !pruneFromMode, "no-expressions")
	o.NonTrivial = anyCut && anyKept

	var got *profile.Profile
	switch c.Mode {
	case 0:
		if err := p.RemoveUninteresting(); err != nil {
			e.Addf("RemoveUninteresting: %v", err)
			return e
		}
		got = p
	case 1:
		if drop != nil {
			p.Prune(drop, keep)
		}
		got = p
	case 3:
		p.PruneFrom(pf)
		got = p
	case 2, 4:
		fl := map[string]string{"proto": "true", "output": "out"}
		if c.Mode == 4 {
			fl["prune_from"] = c.PruneFrom
		}
		res := pp.Run(pp.Req{Flags: fl, Args: []string{"src"}, Sources: map[string]*pp.Source{"src": {Prof: p}}})
		if res.Panic != "" {
			return []string{"pprof panicked: " + res.Panic}
		}
		if res.Err != nil {
			e.Addf("pprof -proto failed: %v", res.Err)
			return e
		}
		var err error
		got, err = profile.ParseData([]byte(res.Out("out")))
		if err != nil {
			e.Addf("pprof -proto output does not parse: %v", err)
			return e
		}
	}
	if drop == nil && !pruneFromMode && c.Mode <= 1 {
		if s := model.Snap(got, model.SnapOpts{}); s != before {
			e.Addf("profile without drop_frames was modified")
		}
	}
	if len(got.Sample) != len(orig.Sample) {
		e.Addf("number of samples changed from %d to %d", len(orig.Sample), len(got.Sample))
		return e
	}
	for i, s := range got.Sample {
		os := orig.Sample[i]
		if fmt.Sprint(s.Value) != fmt.Sprint(os.Value) {
			e.Addf("sample %d: values changed", i)
		}
		if model.LabelString(s, true) != model.LabelString(os, true) {
			e.Addf("sample %d: labels changed", i)
		}
		g := framesRootFirst(s)
		if len(framesRootFirst(os)) > 0 && len(g) == 0 {
			e.Addf("sample %d had frames and became empty (drop=%q keep=%q prune_from=%q)", i, c.Drop, c.Keep, c.PruneFrom)
			continue
		}
		if fstr(g) != fstr(wantFrames[i]) {
			sigName := "C11-prune-location-granularity"
			if pruneFromMode {
				sigName = "C11-prunefrom-shared-trim"
			}
			if cutInlined[i] && vk.Known(sigName) {
				o.Exclude(sigName)
				continue
			}
			e.Addf("sample %d (drop=%q keep=%q prune_from=%q mode=%d): frames root first\n   had  %s\n   want %s\n   got  %s", i, c.Drop, c.Keep, c.PruneFrom, c.Mode, fstr(framesRootFirst(os)), fstr(wantFrames[i]), fstr(g))
		}
	}
	return e
}

func TestPropPrune(t *testing.T) {
	vk.Main(t, vk.Spec[pruneCase]{ID: "C11", Facet: "prune", Quick: 15000, Thorough: 60000, Gen: genCase, Check: check, Journal: true,
		Rule: "generated profiles whose function names come from a pool built to interact with name simplification (.foo, foo(int), (anonymous namespace), operator(), runtime.*) x drop/keep/prune_from expressions built from the same names (literals, 2- and 3-way alternations, prefix.*, .*suffix, invalid) x entry point (RemoveUninteresting, Prune, driver with drop_frames, PruneFrom, driver -prune_from); oracle: frame-level reference model written from the statement + frame conditions (sample count, values, labels, untouched without expressions, never empty); non-trivial = the rule removes frames from some sample and leaves another untouched"})
}
