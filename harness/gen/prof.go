// Package gen holds the rapid generators and the plain, serialisable
// description of a profile (Prof) from which a *profile.Profile is built.
package gen

import (
	"github.com/google/pprof/profile"
)

type VT struct{ Type, Unit string }

type Map struct {
	ID                   uint64
	Start, Limit, Offset uint64
	File, BuildID        string
	HasFunctions         bool
	HasFilenames         bool
	HasLineNumbers       bool
	HasInlineFrames      bool
}

type Func struct {
	ID                         uint64
	Name, SystemName, Filename string
	StartLine                  int64
}

type Line struct {
	Fn           int // index into Functions
	Line, Column int64
}

type Loc struct {
	ID      uint64
	Map     int // index into Mappings, -1 = none
	Address uint64
	Lines   []Line
	Folded  bool
}

type StrLabel struct {
	Key  string
	Vals []string
}

type NumLabel struct {
	Key      string
	Vals     []int64
	Units    []string // used when HasUnits; must then have len(Vals)
	HasUnits bool
}

type Sample struct {
	Locs   []int // indexes into Locations, leaf first
	Values []int64
	Labels []StrLabel
	Nums   []NumLabel
}

// Prof is a plain description of an in-memory profile.
type Prof struct {
	SampleTypes       []VT
	HasPeriodType     bool
	PeriodType        VT
	Period            int64
	Time, Duration    int64
	Comments          []string
	DefaultSampleType string
	DocURL            string
	DropFrames        string
	KeepFrames        string
	Mappings          []Map
	Functions         []Func
	Locations         []Loc
	Samples           []Sample
}

// Build constructs the in-memory profile.
func (p *Prof) Build() *profile.Profile {
	out := &profile.Profile{
		DefaultSampleType: p.DefaultSampleType,
		DocURL:            p.DocURL,
		DropFrames:        p.DropFrames,
		KeepFrames:        p.KeepFrames,
		TimeNanos:         p.Time,
		DurationNanos:     p.Duration,
		Period:            p.Period,
	}
	for _, c := range p.Comments {
		out.Comments = append(out.Comments, c)
	}
	for _, st := range p.SampleTypes {
		out.SampleType = append(out.SampleType, &profile.ValueType{Type: st.Type, Unit: st.Unit})
	}
	if p.HasPeriodType {
		out.PeriodType = &profile.ValueType{Type: p.PeriodType.Type, Unit: p.PeriodType.Unit}
	}
	for _, m := range p.Mappings {
		out.Mapping = append(out.Mapping, &profile.Mapping{ID: m.ID, Start: m.Start, Limit: m.Limit, Offset: m.Offset,
			File: m.File, BuildID: m.BuildID, HasFunctions: m.HasFunctions, HasFilenames: m.HasFilenames,
			HasLineNumbers: m.HasLineNumbers, HasInlineFrames: m.HasInlineFrames})
	}
	for _, f := range p.Functions {
		out.Function = append(out.Function, &profile.Function{ID: f.ID, Name: f.Name, SystemName: f.SystemName, Filename: f.Filename, StartLine: f.StartLine})
	}
	for _, l := range p.Locations {
		loc := &profile.Location{ID: l.ID, Address: l.Address, IsFolded: l.Folded}
		if l.Map >= 0 {
			loc.Mapping = out.Mapping[l.Map]
		}
		for _, ln := range l.Lines {
			loc.Line = append(loc.Line, profile.Line{Function: out.Function[ln.Fn], Line: ln.Line, Column: ln.Column})
		}
		out.Location = append(out.Location, loc)
	}
	for _, s := range p.Samples {
		smp := &profile.Sample{Value: append([]int64{}, s.Values...)}
		for _, li := range s.Locs {
			smp.Location = append(smp.Location, out.Location[li])
		}
		if len(s.Labels) > 0 {
			smp.Label = map[string][]string{}
			for _, l := range s.Labels {
				smp.Label[l.Key] = append([]string{}, l.Vals...)
			}
		}
		if len(s.Nums) > 0 {
			smp.NumLabel = map[string][]int64{}
			smp.NumUnit = map[string][]string{}
			for _, l := range s.Nums {
				smp.NumLabel[l.Key] = append([]int64{}, l.Vals...)
				if l.HasUnits {
					smp.NumUnit[l.Key] = append([]string{}, l.Units...)
				}
			}
		}
		out.Sample = append(out.Sample, smp)
	}
	return out
}
