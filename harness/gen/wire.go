package gen

import (
	"sort"
)

// Tape is a shrinkable stream of encoding choices drawn by rapid; when it
// runs out every choice is 0 (the canonical choice).
type Tape struct {
	B    []byte
	Seed uint64 // when non-zero, choices after B is exhausted come from xorshift(Seed): a pure function of the case
	pos  int
}

func (t *Tape) next() int {
	if t.pos >= len(t.B) {
		if t.Seed == 0 {
			return 0
		}
		t.Seed ^= t.Seed << 13
		t.Seed ^= t.Seed >> 7
		t.Seed ^= t.Seed << 17
		return int(t.Seed>>24) & 0xff
	}
	v := t.B[t.pos]
	t.pos++
	return int(v)
}

// N returns a choice in [0,n).
func (t *Tape) N(n int) int {
	if n <= 1 {
		return 0
	}
	return t.next() % n
}

type wbuf struct {
	b []byte
	t *Tape
}

func (w *wbuf) varint(x uint64) {
	// optionally non-minimal (padded with continuation bytes), at most 10 bytes
	pad := 0
	if w.t.N(8) == 1 {
		pad = 1 + w.t.N(3)
	}
	n := 0
	for x >= 128 {
		w.b = append(w.b, byte(x)|0x80)
		x >>= 7
		n++
	}
	if pad > 0 && n+1+pad <= 10 {
		w.b = append(w.b, byte(x)|0x80)
		for i := 0; i < pad-1; i++ {
			w.b = append(w.b, 0x80)
		}
		w.b = append(w.b, 0)
		return
	}
	w.b = append(w.b, byte(x))
}

func (w *wbuf) plainVarint(x uint64) {
	for x >= 128 {
		w.b = append(w.b, byte(x)|0x80)
		x >>= 7
	}
	w.b = append(w.b, byte(x))
}

func (w *wbuf) tag(field, typ int) { w.plainVarint(uint64(field)<<3 | uint64(typ)) }

func (w *wbuf) u64(field int, x uint64) {
	w.tag(field, 0)
	w.varint(x)
}

// opt emits a scalar; zero values are usually omitted, sometimes written explicitly.
func (w *wbuf) opt(field int, x uint64) {
	if x == 0 && w.t.N(5) != 1 {
		return
	}
	if x != 0 && w.t.N(10) == 1 {
		// duplicated scalar: last one wins (proto3)
		w.u64(field, x^0x55)
	}
	w.u64(field, x)
}

func (w *wbuf) bytesField(field int, b []byte) {
	w.tag(field, 2)
	w.plainVarint(uint64(len(b)))
	w.b = append(w.b, b...)
}

// repeated emits a repeated scalar packed, unpacked, or split in chunks.
func (w *wbuf) repeated(field int, xs []uint64) {
	i := 0
	for i < len(xs) {
		mode := w.t.N(3)
		switch mode {
		case 0: // canonical for the real encoder: >2 packed else unpacked; we do the opposite sometimes through other modes
			if len(xs) > 2 {
				sub := &wbuf{t: w.t}
				for _, x := range xs[i:] {
					sub.varint(x)
				}
				w.bytesField(field, sub.b)
				i = len(xs)
			} else {
				w.u64(field, xs[i])
				i++
			}
		case 1: // one unpacked element
			w.u64(field, xs[i])
			i++
		case 2: // a packed chunk of 1..3 elements (also for counts <= 2)
			n := 1 + w.t.N(3)
			if i+n > len(xs) {
				n = len(xs) - i
			}
			sub := &wbuf{t: w.t}
			for _, x := range xs[i : i+n] {
				sub.varint(x)
			}
			w.bytesField(field, sub.b)
			i += n
		}
	}
	if len(xs) == 0 && w.t.N(6) == 1 {
		w.bytesField(field, nil) // empty packed field
	}
}

func (w *wbuf) unknown() {
	if w.t.N(6) != 1 {
		return
	}
	f := 16 + w.t.N(40)
	switch w.t.N(4) {
	case 0:
		w.tag(f, 0)
		w.varint(uint64(w.t.next()) << uint(w.t.N(50)))
	case 1:
		w.tag(f, 1)
		w.b = append(w.b, 1, 2, 3, 4, 5, 6, 7, 8)
	case 2:
		w.tag(f, 2)
		n := w.t.N(5)
		w.plainVarint(uint64(n))
		for i := 0; i < n; i++ {
			w.b = append(w.b, byte(w.t.next()))
		}
	case 3:
		w.tag(f, 5)
		w.b = append(w.b, 9, 8, 7, 6)
	}
}

// Wire serialises p with an encoder written from proto/profile.proto that makes
// choices (driven by tape) the real encoder never makes. Returns the bytes.
func Wire(p *Prof, tape *Tape) []byte {
	// string table: "" first, then every string; optionally duplicates/unused entries.
	idx := map[string]int{"": 0}
	table := []string{""}
	str := func(s string) uint64 {
		if i, ok := idx[s]; ok {
			if s != "" && tape.N(12) == 1 {
				// duplicate entry for the same string
				table = append(table, s)
				return uint64(len(table) - 1)
			}
			return uint64(i)
		}
		if tape.N(10) == 1 {
			table = append(table, "unused-entry")
		}
		idx[s] = len(table)
		table = append(table, s)
		return uint64(len(table) - 1)
	}
	type item struct {
		kind int
		b    []byte
	}
	var items [][]item = make([][]item, 6)
	msg := func(f func(w *wbuf)) []byte {
		w := &wbuf{t: tape}
		f(w)
		return w.b
	}
	shuffleEmit := func(w *wbuf, fns []func()) {
		// emit fields in a tape-chosen order
		order := make([]int, len(fns))
		for i := range order {
			order[i] = i
		}
		if tape.N(3) == 1 {
			for i := len(order) - 1; i > 0; i-- {
				j := tape.N(i + 1)
				order[i], order[j] = order[j], order[i]
			}
		}
		for _, i := range order {
			fns[i]()
			w.unknown()
		}
	}
	vt := func(v VT) []byte {
		return msg(func(w *wbuf) {
			shuffleEmit(w, []func(){func() { w.opt(1, str(v.Type)) }, func() { w.opt(2, str(v.Unit)) }})
		})
	}
	for _, st := range p.SampleTypes {
		items[0] = append(items[0], item{1, vt(st)})
	}
	for _, s := range p.Samples {
		s := s
		b := msg(func(w *wbuf) {
			var locs []uint64
			for _, li := range s.Locs {
				locs = append(locs, p.Locations[li].ID)
			}
			var vals []uint64
			for _, v := range s.Values {
				vals = append(vals, uint64(v))
			}
			var labels [][]byte
			for _, l := range s.Labels {
				for _, v := range l.Vals {
					k, v := l.Key, v
					labels = append(labels, msg(func(w *wbuf) {
						shuffleEmit(w, []func(){func() { w.opt(1, str(k)) }, func() { w.opt(2, str(v)) }})
					}))
				}
			}
			for _, l := range s.Nums {
				for i, v := range l.Vals {
					k, v := l.Key, v
					u := ""
					if l.HasUnits {
						u = l.Units[i]
					}
					labels = append(labels, msg(func(w *wbuf) {
						shuffleEmit(w, []func(){func() { w.opt(1, str(k)) }, func() { w.opt(3, uint64(v)) }, func() { w.opt(4, str(u)) }})
					}))
				}
			}
			// repeated fields keep their relative order; different fields may interleave.
			fns := []func(){func() { w.repeated(1, locs) }, func() { w.repeated(2, vals) }, func() {
				for _, lb := range labels {
					w.bytesField(3, lb)
				}
			}}
			shuffleEmit(w, fns)
		})
		items[1] = append(items[1], item{2, b})
	}
	for _, m := range p.Mappings {
		m := m
		bo := func(b bool) uint64 {
			if b {
				if tape.N(6) == 1 {
					return 2 + uint64(tape.N(200)) // any non-zero varint is true
				}
				return 1
			}
			return 0
		}
		items[2] = append(items[2], item{3, msg(func(w *wbuf) {
			shuffleEmit(w, []func(){func() { w.opt(1, m.ID) }, func() { w.opt(2, m.Start) }, func() { w.opt(3, m.Limit) }, func() { w.opt(4, m.Offset) },
				func() { w.opt(5, str(m.File)) }, func() { w.opt(6, str(m.BuildID)) }, func() { w.opt(7, bo(m.HasFunctions)) }, func() { w.opt(8, bo(m.HasFilenames)) },
				func() { w.opt(9, bo(m.HasLineNumbers)) }, func() { w.opt(10, bo(m.HasInlineFrames)) }})
		})})
	}
	for _, l := range p.Locations {
		l := l
		items[3] = append(items[3], item{4, msg(func(w *wbuf) {
			mid := uint64(0)
			if l.Map >= 0 {
				mid = p.Mappings[l.Map].ID
			}
			folded := uint64(0)
			if l.Folded {
				folded = 1
			}
			shuffleEmit(w, []func(){func() { w.opt(1, l.ID) }, func() { w.opt(2, mid) }, func() { w.opt(3, l.Address) }, func() {
				for _, ln := range l.Lines {
					ln := ln
					w.bytesField(4, msg(func(w *wbuf) {
						shuffleEmit(w, []func(){func() { w.opt(1, p.Functions[ln.Fn].ID) }, func() { w.opt(2, uint64(ln.Line)) }, func() { w.opt(3, uint64(ln.Column)) }})
					}))
				}
			}, func() { w.opt(5, folded) }})
		})})
	}
	for _, f := range p.Functions {
		f := f
		items[4] = append(items[4], item{5, msg(func(w *wbuf) {
			shuffleEmit(w, []func(){func() { w.opt(1, f.ID) }, func() { w.opt(2, str(f.Name)) }, func() { w.opt(3, str(f.SystemName)) }, func() { w.opt(4, str(f.Filename)) }, func() { w.opt(5, uint64(f.StartLine)) }})
		})})
	}
	// header scalars
	top := &wbuf{t: tape}
	var hdr []func()
	// every string index is fixed before anything is emitted (the table may be written first)
	dropX, keepX, dstX, docX := str(p.DropFrames), str(p.KeepFrames), str(p.DefaultSampleType), str(p.DocURL)
	var ptBytes []byte
	emitPT := p.HasPeriodType && (p.PeriodType.Type != "" || p.PeriodType.Unit != "" || tape.N(2) == 1)
	if emitPT {
		ptBytes = vt(p.PeriodType)
	}
	var cs []uint64
	for _, c := range p.Comments {
		cs = append(cs, str(c))
	}
	hdr = append(hdr, func() { top.opt(7, dropX) }, func() { top.opt(8, keepX) },
		func() {
			if p.Time != 0 { // a second time_nanos is documented as a concatenation marker: never duplicated
				top.u64(9, uint64(p.Time))
			}
		},
		func() { top.opt(10, uint64(p.Duration)) },
		func() {
			if emitPT {
				top.bytesField(11, ptBytes)
			}
		},
		func() { top.opt(12, uint64(p.Period)) },
		func() { top.repeated(13, cs) },
		func() { top.opt(14, dstX) }, func() { top.opt(15, docX) })
	// Decide the order of top-level groups: tables may come in any order, interleaved.
	type group struct {
		emit func()
	}
	var groups []func()
	cursor := make([]int, 5)
	remaining := 0
	for k := 0; k < 5; k++ {
		remaining += len(items[k])
	}
	interleave := tape.N(3) == 1
	if interleave {
		for remaining > 0 {
			k := tape.N(5)
			for cursor[k] >= len(items[k]) {
				k = (k + 1) % 5
			}
			it := items[k][cursor[k]]
			cursor[k]++
			remaining--
			groups = append(groups, func() { top.bytesField(it.kind, it.b) })
		}
	} else {
		order := []int{0, 1, 2, 3, 4}
		if tape.N(2) == 1 {
			for i := len(order) - 1; i > 0; i-- {
				j := tape.N(i + 1)
				order[i], order[j] = order[j], order[i]
			}
		}
		for _, k := range order {
			k := k
			groups = append(groups, func() {
				for _, it := range items[k] {
					top.bytesField(it.kind, it.b)
				}
			})
		}
	}
	// position of header fields and string table among the groups
	hdrPos := tape.N(len(groups) + 1)
	strPos := tape.N(len(groups) + 1)
	emitStrings := func() {
		for _, s := range table {
			top.bytesField(6, []byte(s))
			if tape.N(20) == 1 {
				top.unknown()
			}
		}
	}
	for i := 0; i <= len(groups); i++ {
		if i == strPos {
			emitStrings()
		}
		if i == hdrPos {
			shuffleEmit(top, hdr)
		}
		if i < len(groups) {
			groups[i]()
			top.unknown()
		}
	}
	_ = sort.Strings
	return top.b
}
