package gen

import (
	"fmt"
	"math"
	"sort"
	"strings"

	"pgregory.net/rapid"
)

// Alphabet selects the string pools.
type Alphabet int

const (
	Plain Alphabet = iota
	Hostile
	Meta
)

// Opts parameterises the profile generator. Zero values give a small plain profile.
type Opts struct {
	Alpha       Alphabet
	MaxSamples  int  // default 8
	MaxDepth    int  // default 5
	MaxLines    int  // inline lines per location; default 3
	MinTypes    int  // default 1
	MaxTypes    int  // default 3
	Extreme     bool // extreme int64/uint64 values
	SmallVals   bool // values from a tiny set (ties, cancellation)
	NonNeg      bool // only non-negative values
	AnyIDs      bool // permuted / sparse / huge ids
	NoHugeIDs   bool // with AnyIDs: skip ids near MaxUint64
	Unused      bool // tables may hold unreferenced entries
	Labels      bool
	NumLabels   bool
	EmptyLabel  bool // allow "" label values and 0/"" numeric labels
	EmptyStacks bool
	NoMapping   bool // allow locations without mapping
	Unsym       bool // allow locations without lines
	NearDup     bool // add near-duplicate entities (one attribute flipped)
	Header      bool // random header fields
	LosslessU   bool // sample units that print losslessly
	Columns     bool // non-zero columns
	FixedTypes  []VT // when set, use exactly these sample types
	OddTypes    bool // sample types with an empty name and/or unit (legal; the all-empty one encodes to a zero-length message)
	Folded      bool
}

func (o Opts) def() Opts {
	if o.MaxSamples == 0 {
		o.MaxSamples = 8
	}
	if o.MaxDepth == 0 {
		o.MaxDepth = 5
	}
	if o.MaxLines == 0 {
		o.MaxLines = 3
	}
	if o.MinTypes == 0 && o.MaxTypes == 0 {
		o.MinTypes, o.MaxTypes = 1, 3
	}
	return o
}

var plainFuncs = []string{"main", "alpha", "beta", "gamma", "delta", "run", "work", "leaf", "pkg.Do", "pkg.(*T).M", "ns::f", "ns::g", "helper", "loop"}
var plainFiles = []string{"main.go", "a.go", "b.go", "src/x.cc", "src/y.cc", "lib/z.h", "/usr/src/w.c", ""}
var plainBins = []string{"/bin/app", "/lib/libc.so.6", "/lib/libm.so", "/opt/x/server", "[vdso]", ""}
var plainBuild = []string{"", "abc123", "deadbeef", "0011"}
var labelKeys = []string{"k", "tag", "user", "bytes", "request", "alignment", "thread"}
var labelVals = []string{"v", "w", "x1", "hello", "prod", "true"}
var numUnits = []string{"", "bytes", "kb", "ms", "ns", "widgets"}

var hostileStrs = []string{"", "\x00", "\xff\xfe", "a\nb", "a\"b", `a\b`, "<x>", "../../etc", "http://h/p?q=1", "[kernel.kallsyms]_text",
	"(", "[a-", "*", "%s%d", " ", "μs", "a,b", "k:v", "k=v", " ", "\t", "${x}", "' OR 1", "\x1b[0m", "0", "-1"}
var metaStrs = []string{`q"uo`, `back\slash`, "new\nline", `\l\r\n`, "<a&b>", "</script>", "'single'", "{brace}", "[br]", "semi;colon", "a->b",
	"ns::(anonymous namespace)::f", "T::operator()(int)", "ünïcödé", "日本", "1lead", "(1) x", "tab\there", `"`, `\`, `\"`, "%", "a b", "#hash", "//c", "/*c*/", "<", ">", "&amp;", "&#34;"}

func (o Opts) pool(base []string) *rapid.Generator[string] {
	switch o.Alpha {
	case Hostile:
		return rapid.OneOf(rapid.SampledFrom(base), rapid.SampledFrom(hostileStrs), rapid.SampledFrom(metaStrs),
			rapid.StringN(0, 6, 12))
	case Meta:
		return rapid.OneOf(rapid.SampledFrom(base), rapid.SampledFrom(metaStrs),
			rapid.Custom(func(t *rapid.T) string {
				return rapid.SampledFrom(base).Draw(t, "b") + rapid.SampledFrom(metaStrs).Draw(t, "m")
			}))
	}
	return rapid.SampledFrom(base)
}

// SampleTypePool is the fixed pool of sample types (collides with no command name).
var SampleTypePool = []VT{{"samples", "count"}, {"cpu", "nanoseconds"}, {"cpu", "milliseconds"}, {"alloc_space", "bytes"},
	{"alloc_space", "kb"}, {"objects", "count"}, {"delay", "nanoseconds"}, {"widgets", "widgets"}, {"inuse_space", "bytes"}, {"inuse_objects", "count"}}

var extremeVals = []int64{0, 1, -1, 2, -2, 127, 128, 255, 256, 16383, 16384, math.MaxInt32, math.MaxInt32 + 1, -math.MaxInt32 - 1,
	1 << 53, 1<<53 + 1, -(1 << 53) - 1, math.MaxInt64, math.MinInt64, math.MaxInt64 - 1, math.MinInt64 + 1}

func (o Opts) value() *rapid.Generator[int64] {
	switch {
	case o.Extreme:
		return rapid.OneOf(rapid.SampledFrom(extremeVals), rapid.Int64Range(-1000, 1000), rapid.Int64())
	case o.SmallVals && o.NonNeg:
		return rapid.SampledFrom([]int64{0, 1, 1, 2, 2, 3})
	case o.SmallVals:
		return rapid.SampledFrom([]int64{0, 1, -1, 2, -2, 1, 2})
	case o.NonNeg:
		return rapid.OneOf(rapid.Int64Range(0, 20), rapid.Int64Range(0, 100000))
	}
	return rapid.OneOf(rapid.Int64Range(-20, 40), rapid.Int64Range(-100000, 100000))
}

func (o Opts) u64() *rapid.Generator[uint64] {
	if o.Extreme {
		return rapid.OneOf(rapid.SampledFrom([]uint64{0, 1, 2, 127, 128, 1 << 32, 1 << 63, math.MaxUint64, math.MaxUint64 - 1}), rapid.Uint64())
	}
	return rapid.Uint64Range(0, 1<<20)
}

// Universe is a pool of entities from which several profiles can be assembled
// so that their stacks coincide.
type Universe struct {
	Bins   []UBin
	Funcs  []Func // ID unused
	Frames []UFrame
	Stacks [][]int // frame indexes, leaf first
	LabSet []ULabels
	Types  []VT
}

type UBin struct {
	BuildID, File string
	Offset, Size  uint64
	HasFunctions  bool
	HasFilenames  bool
	HasLineNums   bool
	HasInline     bool
}

type UFrame struct {
	Bin     int // -1: no mapping
	RelAddr uint64
	Lines   []Line
	Folded  bool
}

type ULabels struct {
	Labels []StrLabel
	Nums   []NumLabel
}

// NewUniverse draws a universe.
func NewUniverse(t *rapid.T, o Opts) *Universe {
	o = o.def()
	u := &Universe{}
	if o.FixedTypes != nil {
		u.Types = o.FixedTypes
	} else {
		nt := rapid.IntRange(o.MinTypes, o.MaxTypes).Draw(t, "ntypes")
		perm := rapid.Permutation(SampleTypePool).Draw(t, "types")
		seen := map[string]bool{}
		for _, vt := range perm {
			if len(u.Types) == nt {
				break
			}
			if seen[vt.Type] {
				continue
			}
			if o.LosslessU && vt.Unit != "count" && vt.Unit != "widgets" {
				continue
			}
			seen[vt.Type] = true
			u.Types = append(u.Types, vt)
		}
		if o.OddTypes && len(u.Types) > 0 && rapid.IntRange(0, 4).Draw(t, "oddtype") == 0 {
			i := rapid.IntRange(0, len(u.Types)-1).Draw(t, "oddtypeidx")
			u.Types[i] = rapid.SampledFrom([]VT{{"", ""}, {"", ""}, {"", "count"}, {u.Types[i].Type, ""}}).Draw(t, "oddtypeval")
		}
		if o.LosslessU {
			for len(u.Types) < nt {
				u.Types = append(u.Types, VT{fmt.Sprintf("t%d", len(u.Types)), "count"})
			}
		}
	}
	// binaries
	nb := rapid.IntRange(1, 3).Draw(t, "nbins")
	for i := 0; i < nb; i++ {
		b := UBin{
			BuildID: o.pool(plainBuild).Draw(t, "buildid"),
			File:    o.pool(plainBins).Draw(t, "file"),
			Offset:  rapid.SampledFrom([]uint64{0, 0, 0x1000, 0x2000, 0x200000}).Draw(t, "off"),
			Size:    rapid.SampledFrom([]uint64{0x1000, 0x2000, 0x10000, 0x100000}).Draw(t, "size"),
		}
		b.HasFunctions = rapid.Bool().Draw(t, "hf")
		b.HasFilenames = rapid.Bool().Draw(t, "hfl")
		b.HasLineNums = rapid.Bool().Draw(t, "hln")
		b.HasInline = rapid.Bool().Draw(t, "hin")
		u.Bins = append(u.Bins, b)
	}
	if o.NearDup && rapid.Bool().Draw(t, "dupbin") {
		b := u.Bins[rapid.IntRange(0, len(u.Bins)-1).Draw(t, "dupbinidx")]
		switch rapid.IntRange(0, 3).Draw(t, "binattr") {
		case 0:
			b.BuildID += "x"
		case 1:
			b.File += "x"
		case 2:
			b.Offset += 0x1000
		case 3:
			b.Size += 0x1000
		}
		u.Bins = append(u.Bins, b)
	}
	// functions
	nf := rapid.IntRange(1, 6).Draw(t, "nfuncs")
	for i := 0; i < nf; i++ {
		name := o.pool(plainFuncs).Draw(t, "fname")
		f := Func{Name: name, SystemName: name, Filename: o.pool(plainFiles).Draw(t, "ffile"), StartLine: rapid.Int64Range(0, 50).Draw(t, "fstart")}
		if rapid.IntRange(0, 3).Draw(t, "sysdiff") == 0 {
			f.SystemName = "_Z" + name
		}
		if o.Extreme {
			f.StartLine = o.value().Draw(t, "fstartx")
		}
		u.Funcs = append(u.Funcs, f)
	}
	if o.NearDup {
		nd := rapid.IntRange(0, 2).Draw(t, "ndupf")
		for i := 0; i < nd; i++ {
			f := u.Funcs[rapid.IntRange(0, len(u.Funcs)-1).Draw(t, "dupfidx")]
			switch rapid.IntRange(0, 4).Draw(t, "fattr") {
			case 4:
				if f.Filename == "" {
					f.Filename = "other.go"
				} else {
					f.Filename = "other/" + strings.TrimLeft(f.Filename, "/") // same base name, another directory
				}
			case 0:
				f.Name += "2"
			case 1:
				f.SystemName += "2"
			case 2:
				f.Filename += "2"
			case 3:
				f.StartLine++
			}
			u.Funcs = append(u.Funcs, f)
		}
	}
	// frames
	nfr := rapid.IntRange(1, 7).Draw(t, "nframes")
	for i := 0; i < nfr; i++ {
		fr := UFrame{Bin: rapid.IntRange(0, len(u.Bins)-1).Draw(t, "bin")}
		if o.NoMapping && rapid.IntRange(0, 5).Draw(t, "nomap") == 0 {
			fr.Bin = -1
		}
		if fr.Bin >= 0 {
			fr.RelAddr = rapid.Uint64Range(0, u.Bins[fr.Bin].Size-1).Draw(t, "rel")
		} else {
			fr.RelAddr = rapid.Uint64Range(0, 1<<16).Draw(t, "abs")
		}
		nl := rapid.IntRange(1, o.MaxLines).Draw(t, "nlines")
		if o.Unsym && rapid.IntRange(0, 4).Draw(t, "unsym") == 0 {
			nl = 0
		}
		for j := 0; j < nl; j++ {
			ln := Line{Fn: rapid.IntRange(0, len(u.Funcs)-1).Draw(t, "fn"), Line: rapid.OneOf(rapid.SampledFrom([]int64{0, 0, 7, 7, 1}), rapid.Int64Range(0, 99)).Draw(t, "line")}
			if o.Columns {
				ln.Column = rapid.Int64Range(0, 9).Draw(t, "col")
			}
			if o.Extreme && rapid.Bool().Draw(t, "xl") {
				ln.Line = o.value().Draw(t, "linex")
				ln.Column = o.value().Draw(t, "colx")
			}
			fr.Lines = append(fr.Lines, ln)
		}
		if o.Folded {
			fr.Folded = rapid.IntRange(0, 4).Draw(t, "folded") == 0
		}
		u.Frames = append(u.Frames, fr)
	}
	if o.NearDup {
		nd := rapid.IntRange(0, 3).Draw(t, "ndupfr")
		for i := 0; i < nd; i++ {
			src := u.Frames[rapid.IntRange(0, len(u.Frames)-1).Draw(t, "dupfridx")]
			fr := src
			fr.Lines = append([]Line{}, src.Lines...)
			k := rapid.IntRange(0, 7).Draw(t, "frattr")
			li := 0
			if len(fr.Lines) > 0 {
				li = rapid.IntRange(0, len(fr.Lines)-1).Draw(t, "depth")
			}
			switch {
			case k == 0:
				fr.RelAddr++
			case k == 1:
				fr.Folded = !fr.Folded
			case k == 2 && len(fr.Lines) > 0:
				fr.Lines[li].Line++
			case k == 3 && len(fr.Lines) > 0:
				fr.Lines[li].Column++
			case k == 4 && len(fr.Lines) > 0:
				fr.Lines[li].Fn = (fr.Lines[li].Fn + 1) % len(u.Funcs)
			case k == 5 && len(fr.Lines) > 1:
				fr.Lines = fr.Lines[:len(fr.Lines)-1]
			case k == 7 && len(fr.Lines) > 0 && fr.Lines[li].Line != 0:
				fr.Lines[li].Line = 0 // same function once with and once without line information
			case k == 6:
				fr.Bin = (fr.Bin+2)%(len(u.Bins)+1) - 1
				if fr.Bin >= 0 && fr.RelAddr >= u.Bins[fr.Bin].Size {
					fr.RelAddr = 0
				}
			default:
				fr.RelAddr += 2
			}
			u.Frames = append(u.Frames, fr)
		}
	}
	// stacks
	ns := rapid.IntRange(1, 6).Draw(t, "nstacks")
	for i := 0; i < ns; i++ {
		d := rapid.IntRange(1, o.MaxDepth).Draw(t, "depth")
		if o.EmptyStacks && rapid.IntRange(0, 6).Draw(t, "empty") == 0 {
			d = 0
		}
		st := []int{}
		for j := 0; j < d; j++ {
			st = append(st, rapid.IntRange(0, len(u.Frames)-1).Draw(t, "frame"))
		}
		u.Stacks = append(u.Stacks, st)
	}
	// label sets
	u.LabSet = append(u.LabSet, ULabels{})
	if o.Labels || o.NumLabels {
		nls := rapid.IntRange(0, 3).Draw(t, "nlabsets")
		for i := 0; i < nls; i++ {
			u.LabSet = append(u.LabSet, o.labels(t))
		}
		if o.NearDup && len(u.LabSet) > 1 && rapid.Bool().Draw(t, "duplab") {
			src := u.LabSet[1+rapid.IntRange(0, len(u.LabSet)-2).Draw(t, "duplabidx")]
			u.LabSet = append(u.LabSet, flipLabel(t, src))
		}
	}
	return u
}

func cloneLabels(l ULabels) ULabels {
	var out ULabels
	for _, s := range l.Labels {
		out.Labels = append(out.Labels, StrLabel{s.Key, append([]string{}, s.Vals...)})
	}
	for _, n := range l.Nums {
		out.Nums = append(out.Nums, NumLabel{n.Key, append([]int64{}, n.Vals...), append([]string{}, n.Units...), n.HasUnits})
	}
	return out
}

func flipLabel(t *rapid.T, src ULabels) ULabels {
	l := cloneLabels(src)
	k := rapid.IntRange(0, 5).Draw(t, "labattr")
	switch {
	case k == 5 && len(l.Labels) > 1:
		// re-bracketing: same flattened (key, values...) token sequence, different grouping
		sort.Slice(l.Labels, func(i, j int) bool { return l.Labels[i].Key < l.Labels[j].Key })
		a, b := l.Labels[0], l.Labels[1]
		a.Vals = append(append(append([]string{}, a.Vals...), b.Key), b.Vals...)
		l.Labels = append([]StrLabel{a}, l.Labels[2:]...)
	case k == 0 && len(l.Labels) > 0:
		l.Labels[0].Vals = append(l.Labels[0].Vals, l.Labels[0].Vals[0]) // multiplicity
	case k == 1 && len(l.Labels) > 0 && len(l.Labels[0].Vals) > 1:
		v := l.Labels[0].Vals
		v[0], v[1] = v[1], v[0] // order
	case k == 2 && len(l.Nums) > 0:
		n := &l.Nums[0]
		if !n.HasUnits {
			n.HasUnits = true
			n.Units = make([]string, len(n.Vals))
		}
		n.Units[0] += "x" // unit only
	case k == 3 && len(l.Nums) > 0:
		l.Nums[0].Vals[0]++
	case k == 4 && len(l.Nums) > 0:
		n := &l.Nums[0]
		n.Vals = append(n.Vals, n.Vals[0])
		if n.HasUnits {
			n.Units = append(n.Units, n.Units[0])
		}
	default:
		l.Labels = append(l.Labels, StrLabel{"zz", []string{"flip"}})
	}
	return l
}

func (o Opts) labels(t *rapid.T) ULabels {
	var l ULabels
	used := map[string]bool{}
	if o.Labels {
		n := rapid.IntRange(0, 2).Draw(t, "nlab")
		for i := 0; i < n; i++ {
			k := o.pool(labelKeys).Draw(t, "lkey")
			if used["s"+k] {
				continue
			}
			used["s"+k] = true
			nv := rapid.IntRange(1, 3).Draw(t, "nval")
			var vs []string
			for j := 0; j < nv; j++ {
				v := o.pool(labelVals).Draw(t, "lval")
				if v == "" && !o.EmptyLabel {
					v = "e"
				}
				vs = append(vs, v)
			}
			l.Labels = append(l.Labels, StrLabel{k, vs})
		}
	}
	if o.NumLabels {
		n := rapid.IntRange(0, 2).Draw(t, "nnum")
		for i := 0; i < n; i++ {
			k := o.pool(labelKeys).Draw(t, "nkey")
			if used["n"+k] {
				continue
			}
			used["n"+k] = true
			nv := rapid.IntRange(1, 3).Draw(t, "nnval")
			nl := NumLabel{Key: k}
			mode := rapid.IntRange(0, 3).Draw(t, "unitmode") // 0 none, 1 all "", 2 mixed, 3 full
			nl.HasUnits = mode != 0
			for j := 0; j < nv; j++ {
				var v int64
				if o.Extreme {
					v = o.value().Draw(t, "nvalx")
				} else {
					v = rapid.Int64Range(-3, 4096).Draw(t, "nval")
				}
				un := ""
				switch mode {
				case 2:
					if rapid.Bool().Draw(t, "hasu") {
						un = o.pool(numUnits[1:]).Draw(t, "unit")
					}
				case 3:
					un = o.pool(numUnits[1:]).Draw(t, "unit")
				}
				if v == 0 && un == "" && !o.EmptyLabel {
					v = 1
				}
				nl.Vals = append(nl.Vals, v)
				if nl.HasUnits {
					nl.Units = append(nl.Units, un)
				}
			}
			l.Nums = append(l.Nums, nl)
		}
	}
	return l
}

// IDPolicy for FromUniverse.
const (
	IDDense = iota
	IDPermuted
	IDSparse
	IDHuge
)

// FromUniverse assembles one profile. Every choice (ids, ASLR, table order,
// which stacks, values) is drawn.
func FromUniverse(t *rapid.T, u *Universe, o Opts) *Prof {
	o = o.def()
	p := &Prof{SampleTypes: append([]VT{}, u.Types...)}
	pol := IDDense
	if o.AnyIDs {
		pol = rapid.IntRange(0, 3).Draw(t, "idpolicy")
		if o.NoHugeIDs && pol == IDHuge {
			pol = IDSparse
		}
	}
	mkIDs := func(n int, what string) []uint64 {
		ids := make([]uint64, n)
		for i := range ids {
			ids[i] = uint64(i + 1)
		}
		switch pol {
		case IDPermuted:
			ids = rapid.Permutation(ids).Draw(t, what+"perm")
		case IDSparse:
			// straddle the dense/sparse threshold at len(table)
			base := rapid.SampledFrom([]uint64{uint64(n) - 1, uint64(n), uint64(n) + 1, 1000}).Draw(t, what+"base")
			if n > 0 && base == uint64(n)-1 && base == 0 {
				base = 1
			}
			for i := range ids {
				ids[i] = base + uint64(i)*uint64(rapid.IntRange(1, 3).Draw(t, what+"step"))
				if i > 0 && ids[i] <= ids[i-1] {
					ids[i] = ids[i-1] + 1
				}
				if ids[i] == 0 {
					ids[i] = 1
				}
			}
			ids = rapid.Permutation(ids).Draw(t, what+"perm")
		case IDHuge:
			for i := range ids {
				ids[i] = math.MaxUint64 - uint64(i)
				if i%2 == 1 {
					ids[i] = 1<<63 + uint64(i)
				}
			}
		}
		return ids
	}
	// choose samples first so we know which entities are used
	ns := rapid.IntRange(0, o.MaxSamples).Draw(t, "nsamples")
	if len(p.SampleTypes) == 0 {
		ns = 0
	}
	type pick struct{ stack, lab int }
	var picks []pick
	for i := 0; i < ns; i++ {
		picks = append(picks, pick{rapid.IntRange(0, len(u.Stacks)-1).Draw(t, "stack"), rapid.IntRange(0, len(u.LabSet)-1).Draw(t, "labset")})
	}
	frameUsed := map[int]bool{}
	for _, pk := range picks {
		for _, f := range u.Stacks[pk.stack] {
			frameUsed[f] = true
		}
	}
	if o.Unused {
		for f := range u.Frames {
			if rapid.IntRange(0, 4).Draw(t, "extraframe") == 0 {
				frameUsed[f] = true
			}
		}
	}
	// frames -> locations; the same frame may appear as two distinct locations.
	var frameOrder []int
	for f := range u.Frames {
		if frameUsed[f] {
			frameOrder = append(frameOrder, f)
		}
	}
	if len(frameOrder) > 1 {
		frameOrder = rapid.Permutation(frameOrder).Draw(t, "locorder")
	}
	binUsed := map[int]bool{}
	fnUsed := map[int]bool{}
	for _, f := range frameOrder {
		if u.Frames[f].Bin >= 0 {
			binUsed[u.Frames[f].Bin] = true
		}
		for _, ln := range u.Frames[f].Lines {
			fnUsed[ln.Fn] = true
		}
	}
	if o.Unused {
		for b := range u.Bins {
			if rapid.IntRange(0, 3).Draw(t, "extrabin") == 0 {
				binUsed[b] = true
			}
		}
		for f := range u.Funcs {
			if rapid.IntRange(0, 3).Draw(t, "extrafn") == 0 {
				fnUsed[f] = true
			}
		}
	}
	// mappings: ASLR start per binary, non-overlapping by construction.
	binIdx := map[int]int{}
	var binOrder []int
	for b := range u.Bins {
		if binUsed[b] {
			binOrder = append(binOrder, b)
		}
	}
	if len(binOrder) > 1 && rapid.Bool().Draw(t, "permbins") {
		binOrder = rapid.Permutation(binOrder).Draw(t, "binorder")
	}
	mids := mkIDs(len(binOrder), "map")
	next := uint64(0x400000)
	for i, b := range binOrder {
		ub := u.Bins[b]
		start := next + uint64(rapid.IntRange(0, 16).Draw(t, "aslr"))*0x1000
		if o.Extreme && rapid.IntRange(0, 5).Draw(t, "hugestart") == 0 {
			start = math.MaxUint64 - ub.Size - 0xfff
			start &^= 0xfff
		}
		p.Mappings = append(p.Mappings, Map{ID: mids[i], Start: start, Limit: start + ub.Size, Offset: ub.Offset, File: ub.File, BuildID: ub.BuildID,
			HasFunctions: ub.HasFunctions, HasFilenames: ub.HasFilenames, HasLineNumbers: ub.HasLineNums, HasInlineFrames: ub.HasInline})
		binIdx[b] = i
		next = start + ub.Size + 0x1000
	}
	// functions
	fnIdx := map[int]int{}
	var fnOrder []int
	for f := range u.Funcs {
		if fnUsed[f] {
			fnOrder = append(fnOrder, f)
		}
	}
	if len(fnOrder) > 1 && rapid.Bool().Draw(t, "permfns") {
		fnOrder = rapid.Permutation(fnOrder).Draw(t, "fnorder")
	}
	fids := mkIDs(len(fnOrder), "fn")
	for i, f := range fnOrder {
		uf := u.Funcs[f]
		uf.ID = fids[i]
		p.Functions = append(p.Functions, uf)
		fnIdx[f] = i
	}
	// locations
	lids := mkIDs(len(frameOrder), "loc")
	locIdx := map[int]int{}
	for i, f := range frameOrder {
		uf := u.Frames[f]
		l := Loc{ID: lids[i], Map: -1, Address: uf.RelAddr, Folded: uf.Folded}
		if uf.Bin >= 0 {
			l.Map = binIdx[uf.Bin]
			l.Address = p.Mappings[l.Map].Start + uf.RelAddr
		}
		for _, ln := range uf.Lines {
			l.Lines = append(l.Lines, Line{Fn: fnIdx[ln.Fn], Line: ln.Line, Column: ln.Column})
		}
		p.Locations = append(p.Locations, l)
		locIdx[f] = i
	}
	// samples
	for _, pk := range picks {
		s := Sample{Locs: []int{}}
		for _, f := range u.Stacks[pk.stack] {
			s.Locs = append(s.Locs, locIdx[f])
		}
		for range p.SampleTypes {
			s.Values = append(s.Values, o.value().Draw(t, "value"))
		}
		ls := cloneLabels(u.LabSet[pk.lab])
		s.Labels, s.Nums = ls.Labels, ls.Nums
		p.Samples = append(p.Samples, s)
	}
	if o.Header {
		p.Period = rapid.Int64Range(0, 1000).Draw(t, "period")
		p.Time = rapid.SampledFrom([]int64{0, 1, 1000, 1 << 40}).Draw(t, "time")
		p.Duration = rapid.Int64Range(0, 1e9).Draw(t, "duration")
		if o.Extreme {
			p.Period, p.Time, p.Duration = o.value().Draw(t, "periodx"), o.value().Draw(t, "timex"), o.value().Draw(t, "durx")
		}
		nc := rapid.IntRange(0, 3).Draw(t, "ncomments")
		for i := 0; i < nc; i++ {
			p.Comments = append(p.Comments, o.pool([]string{"c1", "c2", "built by x", "c1"}).Draw(t, "comment"))
		}
		p.HasPeriodType = rapid.Bool().Draw(t, "haspt")
		if p.HasPeriodType {
			p.PeriodType = rapid.SampledFrom(SampleTypePool).Draw(t, "pt")
			if o.Alpha == Hostile && rapid.Bool().Draw(t, "ptempty") {
				p.PeriodType = VT{}
			}
		}
		if len(p.SampleTypes) > 0 && rapid.Bool().Draw(t, "hasdst") {
			p.DefaultSampleType = p.SampleTypes[rapid.IntRange(0, len(p.SampleTypes)-1).Draw(t, "dst")].Type
		}
		if rapid.IntRange(0, 3).Draw(t, "hasdoc") == 0 {
			p.DocURL = o.pool([]string{"http://example.com/doc", "https://x/y"}).Draw(t, "doc")
		}
	} else {
		p.HasPeriodType = true
		p.PeriodType = VT{"cpu", "nanoseconds"}
		p.Period = 1
	}
	return p
}

// Profile draws a single profile.
func Profile(t *rapid.T, o Opts) *Prof {
	u := NewUniverse(t, o)
	return FromUniverse(t, u, o)
}
