package c06

import (
	"fmt"
	"regexp"
	"sort"
	"strconv"
	"strings"
	"testing"

	"github.com/google/pprof/profile"
	"github.com/google/pprof/xverif/gen"
	"github.com/google/pprof/xverif/model"
	"github.com/google/pprof/xverif/pp"
	"github.com/google/pprof/xverif/vk"
	"pgregory.net/rapid"
)

type Filt struct {
	Focus, Ignore, Hide, Show, ShowFrom string
	TagFocus, TagIgnore                 string
	TagShow, TagHide                    string
	Relative                            bool
}

type filterCase struct {
	P *gen.Prof
	F Filt
	// Partition: additionally check focus=R / ignore=R partition for this expression
	PartR string
	// Interactive: the filters are typed as option assignments at the interactive prompt instead of given as flags
	Interactive bool
}

var profOpts = gen.Opts{Alpha: gen.Plain, MaxSamples: 8, MaxDepth: 5, MaxLines: 3, MinTypes: 1, MaxTypes: 2, AnyIDs: true, NoHugeIDs: true,
	Labels: true, NumLabels: true, EmptyStacks: true, NoMapping: true, Unsym: true, LosslessU: true, NonNeg: false, Unused: true}

// one unit per numeric label key across the profile (the documented NumLabelUnits rule picks the
// first and ignores the rest; the statement is silent on mixed units)
var keyUnit = map[string]string{"k": "", "tag": "ms", "user": "nanoseconds", "bytes": "bytes", "request": "", "alignment": "kb", "thread": "seconds"}

// unitOfKey: "thread" is recorded in seconds by half of the profiles and in nanoseconds by the others
func unitOfKey(p *gen.Prof, key string) string {
	if key == "thread" && len(p.Samples)%2 == 1 {
		return "nanoseconds"
	}
	return keyUnit[key]
}

func normalizeLabels(p *gen.Prof) {
	for si := range p.Samples {
		for ni := range p.Samples[si].Nums {
			n := &p.Samples[si].Nums[ni]
			u := unitOfKey(p, n.Key)
			if u == "" {
				n.HasUnits, n.Units = false, nil
			} else {
				n.HasUnits = true
				n.Units = make([]string, len(n.Vals))
				for i := range n.Units {
					n.Units[i] = u
				}
			}
			for i, v := range n.Vals {
				round := map[string][]int64{"ms": {1000, 2000, 5000, 60000}, "bytes": {1024, 4096, 1 << 20, 65536}, "kb": {1024, 2048, 4096, 1 << 20}}
				if r, ok := round[u]; ok && v%2 == 0 {
					// round magnitudes, as sizes and time-outs usually are: a bound in a coarser unit can coincide
					if v < 0 {
						v = -v
					}
					n.Vals[i] = r[v/2%int64(len(r))]
				}
				if u == "nanoseconds" && v%2 == 0 {
					// whole seconds written in nanoseconds: a range bound given in seconds can coincide with them
					if v < 0 {
						v = -v
					}
					n.Vals[i] = []int64{1, 2, 5, 10, 15, 30, 60, 120, 300, 3600}[(v/2*7+int64(si*3+ni+i))%10] * 1000000000
				}
				if v == 0 && u == "" {
					n.Vals[i] = 1
				}
			}
		}
	}
}

func genRegex(t *rapid.T, pool []string, label string) string {
	if len(pool) == 0 {
		return "zzz"
	}
	lit := func() string {
		s := rapid.SampledFrom(pool).Draw(t, label+"lit")
		if s == "" {
			return "zzz"
		}
		return s
	}
	switch rapid.IntRange(0, 8).Draw(t, label+"form") {
	case 0:
		return regexp.QuoteMeta(lit())
	case 1:
		return "^" + regexp.QuoteMeta(lit()) + "$"
	case 2:
		return regexp.QuoteMeta(lit()) + "|" + regexp.QuoteMeta(lit())
	case 3:
		l := lit()
		return regexp.QuoteMeta(l[:1]) + ".*"
	case 4:
		return "(?i)" + regexp.QuoteMeta(strings.ToUpper(lit()))
	case 5:
		l := lit()
		return "[" + regexp.QuoteMeta(l[:1]) + "z]" + regexp.QuoteMeta(l[1:])
	case 6:
		return "zzz_nomatch"
	case 7:
		l := lit()
		return regexp.QuoteMeta(l[len(l)/2:])
	}
	return "."
}

func genRange(t *rapid.T, p *gen.Prof) string {
	units := []string{"", "b", "kb", "mb", "ms", "s", "us", "bytes", "KB"}
	// values (and the unit) of the profile's own numeric labels: bounds that coincide with a label exercise the
	// inclusive ends of the range, wide two-sided ranges have labels of other unit families numerically inside
	type lv struct {
		v int64
		u string
	}
	var own []lv
	for _, sm := range p.Samples {
		for _, n := range sm.Nums {
			for _, v := range n.Vals {
				if v >= 0 {
					own = append(own, lv{v, unitOfKey(p, n.Key)})
				}
			}
		}
	}
	u := rapid.SampledFrom(units).Draw(t, "runit")
	// the same magnitude written in a coarser unit of the family, when it is a whole number of those
	coarser := map[string]struct {
		u string
		f int64
	}{"nanoseconds": {"s", 1000000000}, "ms": {"s", 1000}, "bytes": {"kb", 1024}, "kb": {"mb", 1024}}
	var conv []lv
	for _, o := range own {
		if cu, ok := coarser[o.u]; ok && o.v > 0 && o.v%cu.f == 0 {
			conv = append(conv, lv{o.v / cu.f, cu.u})
		}
	}
	if len(conv) > 0 && rapid.IntRange(0, 1).Draw(t, "conv") == 0 {
		// a bound that coincides with a label written in a finer unit; the exact form is the most sensitive
		o := rapid.SampledFrom(conv).Draw(t, "convv")
		b := strconv.FormatInt(o.v, 10) + o.u
		switch rapid.IntRange(0, 5).Draw(t, "convform") {
		case 0:
			return b + ":"
		case 1:
			return ":" + b
		case 2:
			return "0" + o.u + ":" + b
		case 3:
			return b + ":" + strconv.FormatInt(o.v*1000, 10) + o.u
		}
		return b
	}
	num := func(l string) string {
		if len(own) > 0 && rapid.Bool().Draw(t, l+"own") {
			o := rapid.SampledFrom(own).Draw(t, l+"ownv")
			if u == "" || rapid.Bool().Draw(t, l+"ownunit") {
				u = o.u
			}
			return strconv.FormatInt(o.v, 10)
		}
		return strconv.Itoa(rapid.SampledFrom([]int{0, 1, 2, 3, 4, 16, 1000, 1024, 4096, 5000, 1 << 20, 1 << 30}).Draw(t, l))
	}
	switch rapid.IntRange(0, 3).Draw(t, "rform") {
	case 0:
		n := num("n")
		return n + u
	case 1:
		n := num("n")
		return n + u + ":"
	case 2:
		n := num("n")
		return ":" + n + u
	}
	n1 := num("n1")
	u1 := u
	n2 := num("n2")
	u2 := u
	if u2 != u1 {
		// the second bound took the unit of a label of its own: keep the two bounds in one spelling family
		u2 = u1
	}
	if u1 != "" && rapid.Bool().Draw(t, "u2diff") {
		fam := map[string][]string{"b": {"kb", "mb"}, "kb": {"b", "mb"}, "mb": {"kb"}, "ms": {"s", "us"}, "s": {"ms"}, "us": {"ms"}, "bytes": {"kb"}, "KB": {"mb"}, "seconds": {"ms"}}
		if alt := fam[u1]; len(alt) > 0 {
			u2 = rapid.SampledFrom(alt).Draw(t, "u2")
		}
	}
	return n1 + u1 + ":" + n2 + u2
}

func genTagFilter(t *rapid.T, p *gen.Prof, label string) string {
	var keys, kv []string
	for _, s := range p.Samples {
		for _, l := range s.Labels {
			keys = append(keys, l.Key)
			for _, v := range l.Vals {
				kv = append(kv, v)
			}
		}
		for _, n := range s.Nums {
			keys = append(keys, n.Key)
		}
	}
	keys = append(keys, "k", "bytes", "nokey")
	kv = append(kv, "v", "zzz")
	key := ""
	if rapid.IntRange(0, 2).Draw(t, label+"haskey") == 0 {
		key = rapid.SampledFrom(keys).Draw(t, label+"key") + "="
	}
	if rapid.IntRange(0, 1).Draw(t, label+"isrange") == 0 {
		return key + genRange(t, p)
	}
	// letters-only regexps so that they cannot be mistaken for a range
	clean := func(s string) string {
		s = regexp.MustCompile(`[0-9]`).ReplaceAllString(s, "")
		if s == "" {
			return "zzz"
		}
		switch rapid.IntRange(0, 3).Draw(t, label+"anchor") {
		case 0:
			return "^" + regexp.QuoteMeta(s) + "$"
		case 1:
			return "^" + regexp.QuoteMeta(s[:1])
		}
		return regexp.QuoteMeta(s)
	}
	r := clean(rapid.SampledFrom(kv).Draw(t, label+"v1"))
	if rapid.IntRange(0, 2).Draw(t, label+"two") == 0 {
		r += "," + clean(rapid.SampledFrom(kv).Draw(t, label+"v2"))
	}
	return key + r
}

func genCase(t *rapid.T) *filterCase {
	p := gen.Profile(t, profOpts)
	normalizeLabels(p)
	odd := false
	if len(p.Functions) > 0 && rapid.IntRange(0, 3).Draw(t, "oddnames") == 0 {
		odd = true
		// names that interact with how an expression is typed or passed: one that starts like the "-cum" switch
		// of interactive commands, and two that differ only by a word before a blank
		p.Functions[0].Name = rapid.SampledFrom([]string{"cumsum", "cumulative_total", "operator new", "cum", "3rdparty", "9p_read"}).Draw(t, "oddname0")
		if len(p.Functions) > 1 {
			p.Functions[len(p.Functions)-1].Name = rapid.SampledFrom([]string{"newobject", "new", "sum", "operator new[]", "2fast", "7zip"}).Draw(t, "oddname1")
		}
	}
	if rapid.IntRange(0, 5).Draw(t, "cwdprefix") == 0 {
		// build systems record sources under /proc/self/cwd/, a prefix pprof strips from the file names it
		// PRINTS; expressions are matched against the names the profile carries
		for i := range p.Functions {
			if p.Functions[i].Filename != "" {
				p.Functions[i].Filename = "/proc/self/cwd/" + strings.TrimLeft(p.Functions[i].Filename, "/")
			}
		}
	}
	var pool []string
	for _, f := range p.Functions {
		pool = append(pool, f.Name, f.Filename)
		if i := strings.LastIndex(f.Name, " "); i >= 0 {
			pool = append(pool, f.Name[i:]) // " new": the blank is part of the expression
		}
	}
	for _, m := range p.Mappings {
		pool = append(pool, m.File)
	}
	c := &filterCase{P: p}
	kinds := []string{"focus", "ignore", "hide", "show", "showfrom", "tagfocus", "tagignore", "tagshow", "taghide"}
	n := rapid.SampledFrom([]int{1, 1, 1, 2, 2, 3, 5}).Draw(t, "nfilters")
	chosen := rapid.Permutation(kinds).Draw(t, "kinds")[:n]
	lk := []string{"k", "tag", "user", "bytes", "request", "thread", "zzz", "^k$", "t.*"}
	for _, k := range chosen {
		switch k {
		case "focus":
			c.F.Focus = genRegex(t, pool, k)
		case "ignore":
			c.F.Ignore = genRegex(t, pool, k)
		case "hide":
			c.F.Hide = genRegex(t, pool, k)
		case "show":
			c.F.Show = genRegex(t, pool, k)
		case "showfrom":
			c.F.ShowFrom = genRegex(t, pool, k)
		case "tagfocus":
			c.F.TagFocus = genTagFilter(t, p, "tf")
		case "tagignore":
			c.F.TagIgnore = genTagFilter(t, p, "ti")
		case "tagshow":
			c.F.TagShow = rapid.SampledFrom(lk).Draw(t, "tagshow")
		case "taghide":
			c.F.TagHide = rapid.SampledFrom(lk).Draw(t, "taghide")
		}
	}
	c.F.Relative = rapid.Bool().Draw(t, "relative")
	c.PartR = genRegex(t, pool, "part")
	c.Interactive = rapid.IntRange(0, 3).Draw(t, "interactive") == 0
	var blankExprs []string
	for _, x := range pool {
		if strings.HasPrefix(x, " ") || strings.HasSuffix(x, " ") {
			blankExprs = append(blankExprs, x)
		}
	}
	if len(blankExprs) > 0 && rapid.Bool().Draw(t, "blankexpr") {
		// an expression that begins or ends with a blank (" new" keeps "operator new" and not "newobject")
		x := regexp.QuoteMeta(rapid.SampledFrom(blankExprs).Draw(t, "blankexprv"))
		if rapid.Bool().Draw(t, "blankignore") {
			c.F.Ignore = x
		} else {
			c.F.Focus = x
		}
	}
	if odd && rapid.Bool().Draw(t, "oddfocus") {
		// the odd name itself as the expression, typed at the prompt (as an assignment or as a command argument)
		n := regexp.QuoteMeta(p.Functions[0].Name)
		if rapid.Bool().Draw(t, "oddignore") {
			c.F.Ignore = n
		} else {
			c.F.Focus = n
		}
		c.Interactive = true
	}
	return c
}

// ---- reference filter model ----

type frame struct {
	Name, File, Bin string
	Line, Col       int64
	Addr            uint64
	HasFn           bool
}

func (f frame) String() string {
	return fmt.Sprintf("%q/%q/%q:%d:%d@%x", f.Name, f.File, f.Bin, f.Line, f.Col, f.Addr)
}

type msample struct {
	Frames []frame // leaf first
	Values []int64
	Labels string
	src    *profile.Sample
}

func flatten(p *profile.Profile) []msample {
	var out []msample
	for _, s := range p.Sample {
		ms := msample{Values: append([]int64{}, s.Value...), src: s}
		for _, l := range s.Location {
			bin := ""
			if l.Mapping != nil {
				bin = l.Mapping.File
			}
			if len(l.Line) == 0 {
				ms.Frames = append(ms.Frames, frame{Bin: bin, Addr: l.Address})
				continue
			}
			for _, ln := range l.Line {
				ms.Frames = append(ms.Frames, frame{Name: ln.Function.Name, File: ln.Function.Filename, Bin: bin, Line: ln.Line, Col: ln.Column, Addr: l.Address, HasFn: true})
			}
		}
		out = append(out, ms)
	}
	return out
}

func (f frame) matches(re *regexp.Regexp) bool {
	if f.HasFn && (re.MatchString(f.Name) || re.MatchString(f.File)) {
		return true
	}
	return f.Bin != "" && re.MatchString(f.Bin) || (f.Bin == "" && false)
}

// unit families (documentation of the tag range syntax: values with memory / time units)
var unitFactor = map[string][2]float64{ // unit -> (family, factor)
	"b": {1, 1}, "byte": {1, 1}, "kb": {1, 1 << 10}, "kilobyte": {1, 1 << 10}, "mb": {1, 1 << 20}, "gb": {1, 1 << 30},
	"ns": {2, 1}, "nanosecond": {2, 1}, "us": {2, 1e3}, "ms": {2, 1e6}, "millisecond": {2, 1e6}, "s": {2, 1e9}, "sec": {2, 1e9}, "second": {2, 1e9},
}

func unitOf(u string) (fam, factor float64, known bool) {
	u = strings.ToLower(u)
	if len(u) > 2 {
		u = strings.TrimSuffix(u, "s")
	}
	if v, ok := unitFactor[u]; ok {
		return v[0], v[1], true
	}
	return 0, 1, false
}

type numRange struct {
	lo, hi       float64 // in base units of the family
	hasLo, hasHi bool
	fam          float64
	known        bool
	unit         string
}

var rangePart = regexp.MustCompile(`^([+-]?[0-9]+)([a-zA-Z]+)?$`)

// parseRange interprets the documented range syntax. ok=false: not a range.
func parseRange(s string) (numRange, bool) {
	var r numRange
	part := func(p string) (float64, string, bool) {
		m := rangePart.FindStringSubmatch(p)
		if m == nil {
			return 0, "", false
		}
		n, err := strconv.ParseInt(m[1], 10, 64)
		if err != nil {
			return 0, "", false
		}
		return float64(n), m[2], true
	}
	set := func(u string) bool {
		fam, _, known := unitOf(u)
		if r.unit == "" && !r.hasLo && !r.hasHi {
			r.fam, r.known, r.unit = fam, known, u
			return true
		}
		return r.known == known && r.fam == fam && (known || strings.EqualFold(u, r.unit))
	}
	switch {
	case strings.HasSuffix(s, ":") && strings.Count(s, ":") == 1:
		n, u, ok := part(strings.TrimSuffix(s, ":"))
		if !ok || !set(u) {
			return r, false
		}
		_, f, _ := unitOf(u)
		r.lo, r.hasLo = n*f, true
	case strings.HasPrefix(s, ":") && strings.Count(s, ":") == 1:
		n, u, ok := part(strings.TrimPrefix(s, ":"))
		if !ok || !set(u) {
			return r, false
		}
		_, f, _ := unitOf(u)
		r.hi, r.hasHi = n*f, true
	case strings.Count(s, ":") == 1:
		ps := strings.Split(s, ":")
		n1, u1, ok1 := part(ps[0])
		n2, u2, ok2 := part(ps[1])
		if !ok1 || !ok2 {
			return r, false
		}
		if !set(u1) {
			return r, false
		}
		_, f1, _ := unitOf(u1)
		r.lo, r.hasLo = n1*f1, true
		if !set(u2) {
			return r, false
		}
		_, f2, _ := unitOf(u2)
		r.hi, r.hasHi = n2*f2, true
	default:
		n, u, ok := part(s)
		if !ok || !set(u) {
			return r, false
		}
		_, f, _ := unitOf(u)
		r.lo, r.hi, r.hasLo, r.hasHi = n*f, n*f, true, true
	}
	return r, true
}

// labelUnit is the documented rule of (*Profile).NumLabelUnits.
func labelUnit(p *profile.Profile, key string) string {
	for _, s := range p.Sample {
		for _, u := range s.NumUnit[key] {
			if u != "" {
				return u
			}
		}
	}
	if key == "alignment" || key == "request" {
		return "bytes"
	}
	return key
}

func (r numRange) match(v int64, unit string) (bool, bool) {
	fam, f, known := unitOf(unit)
	if known != r.known {
		// a bound with a unit against a label without a recognisable unit (or vice versa): the
		// documentation speaks of "memory value in the specified range" only; not decided
		return false, false
	}
	if known && fam != r.fam {
		return false, true
	}
	if !known && !strings.EqualFold(unit, r.unit) && r.unit != "" {
		return false, false // unknown units on both sides: the statement is silent
	}
	if !known && r.unit == "" && unit != "" {
		// unit-less bound against a label in an unknown unit: compared as plain numbers
	}
	x := float64(v) * f
	if r.hasLo && x < r.lo {
		return false, true
	}
	if r.hasHi && x > r.hi {
		return false, true
	}
	return true, true
}

// tagMatcher returns the documented tagfocus/tagignore predicate; decided=false when the
// documentation does not settle the case.
func tagMatcher(p *profile.Profile, expr string) func(s *profile.Sample) (bool, bool) {
	key := ""
	val := expr
	if i := strings.Index(expr, "="); i >= 0 {
		key, val = expr[:i], expr[i+1:]
	}
	if r, ok := parseRange(val); ok {
		return func(s *profile.Sample) (bool, bool) {
			decided := true
			for k, vals := range s.NumLabel {
				if key != "" && k != key {
					continue
				}
				for _, v := range vals {
					m, d := r.match(v, labelUnit(p, k))
					if !d {
						decided = false
					}
					if m {
						return true, true
					}
				}
			}
			return false, decided
		}
	}
	var rxs []*regexp.Regexp
	for _, part := range strings.Split(val, ",") {
		rxs = append(rxs, regexp.MustCompile(part))
	}
	if key == "" {
		// every regexp must match some "tagName:tagValue"
		return func(s *profile.Sample) (bool, bool) {
			for _, rx := range rxs {
				found := false
				for k, vals := range s.Label {
					for _, v := range vals {
						if rx.MatchString(k + ":" + v) {
							found = true
						}
					}
				}
				if !found {
					return false, true
				}
			}
			return true, true
		}
	}
	return func(s *profile.Sample) (bool, bool) {
		for _, v := range s.Label[key] {
			for _, rx := range rxs {
				if rx.MatchString(v) {
					return true, true
				}
			}
		}
		return false, true
	}
}

type expect struct {
	samples []msample
	// undecided: the documentation does not determine the outcome (mixed unknown units)
	undecided bool
	// showFromShared: sample indexes (in the expected list) whose frames hit the recorded
	// in-place-trimming finding
	sfShared map[int]bool
}

func comp(s string) *regexp.Regexp {
	if s == "" {
		return nil
	}
	return regexp.MustCompile(s)
}

func apply(p *profile.Profile, f Filt) expect {
	ex := expect{sfShared: map[int]bool{}}
	focus, ignore, hide, show, showFrom := comp(f.Focus), comp(f.Ignore), comp(f.Hide), comp(f.Show), comp(f.ShowFrom)
	var tf, ti func(*profile.Sample) (bool, bool)
	if f.TagFocus != "" {
		tf = tagMatcher(p, f.TagFocus)
	}
	if f.TagIgnore != "" {
		ti = tagMatcher(p, f.TagIgnore)
	}
	tagshow, taghide := comp(f.TagShow), comp(f.TagHide)
	// which locations carry a show_from match on a non-outermost line (finding signature)
	for _, ms := range flatten(p) {
		any := func(re *regexp.Regexp) bool {
			for _, fr := range ms.Frames {
				if fr.matches(re) {
					return true
				}
			}
			return false
		}
		if focus != nil && !any(focus) {
			continue
		}
		if ignore != nil && any(ignore) {
			continue
		}
		hadFrames := len(ms.Frames) > 0
		if hide != nil || show != nil {
			var kept []frame
			for _, fr := range ms.Frames {
				if hide != nil && fr.matches(hide) {
					continue
				}
				if show != nil && !fr.matches(show) {
					continue
				}
				kept = append(kept, fr)
			}
			ms.Frames = kept
			if hadFrames && len(kept) == 0 {
				continue
			}
		}
		if showFrom != nil {
			hi := -1
			for i, fr := range ms.Frames {
				if fr.matches(showFrom) {
					hi = i // frames are leaf first: the last match is the root-most
				}
			}
			if hi < 0 {
				continue
			}
			ms.Frames = ms.Frames[:hi+1]
		}
		if tf != nil {
			m, d := tf(ms.src)
			if !d {
				ex.undecided = true
			}
			if !m {
				continue
			}
		}
		if ti != nil {
			m, d := ti(ms.src)
			if !d {
				ex.undecided = true
			}
			if m {
				continue
			}
		}
		// labels
		lab := &profile.Sample{Label: map[string][]string{}, NumLabel: map[string][]int64{}, NumUnit: map[string][]string{}}
		keep := func(k string) bool {
			if tagshow != nil && !tagshow.MatchString(k) {
				return false
			}
			if taghide != nil && taghide.MatchString(k) {
				return false
			}
			return true
		}
		for k, v := range ms.src.Label {
			if keep(k) {
				lab.Label[k] = v
			}
		}
		for k, v := range ms.src.NumLabel {
			if keep(k) {
				lab.NumLabel[k] = v
				lab.NumUnit[k] = ms.src.NumUnit[k]
			}
		}
		ms.Labels = model.LabelString(lab, true)
		ex.samples = append(ex.samples, ms)
	}
	return ex
}

func framesOf(s *profile.Sample) []frame {
	ms := flatten(&profile.Profile{Sample: []*profile.Sample{s}})
	return ms[0].Frames
}

func fstr(fr []frame) string {
	var p []string
	for _, f := range fr {
		p = append(p, f.String())
	}
	return strings.Join(p, " <- ")
}

func (f Filt) flags() map[string]string {
	return map[string]string{"focus": f.Focus, "ignore": f.Ignore, "hide": f.Hide, "show": f.Show, "show_from": f.ShowFrom, "tagfocus": f.TagFocus,
		"tagignore": f.TagIgnore, "tagshow": f.TagShow, "taghide": f.TagHide, "relative_percentages": fmt.Sprint(f.Relative), "output": "out"}
}

func runProto(p *profile.Profile, f Filt) (*profile.Profile, *pp.Res, error) {
	fl := f.flags()
	fl["proto"] = "true"
	res := pp.Run(pp.Req{Flags: fl, Args: []string{"src"}, Sources: map[string]*pp.Source{"src": {Prof: p}}})
	if res.Panic != "" {
		return nil, res, fmt.Errorf("pprof panicked: %s", res.Panic)
	}
	if res.Err != nil {
		return nil, res, res.Err
	}
	out, err := profile.ParseData([]byte(res.Out("out")))
	return out, res, err
}

func total(ss []msample, idx int) int64 {
	var t int64
	for _, s := range ss {
		v := s.Values[idx]
		if v < 0 {
			v = -v
		}
		t += v
	}
	return t
}

// showFromSharedHit: the recorded finding C06-showfrom-shared-trim applies to this case when some
// location with a show_from match on a non-outermost line (and a non-matching binary) occurs in a
// sample strictly below that sample's highest match.
func showFromSharedHit(p *profile.Profile, re, hide, show *regexp.Regexp) bool {
	if re == nil {
		return false
	}
	// the predicate looks at the lines that survive hide/show, which are applied before show_from
	inner := map[*profile.Location]bool{}
	matchLoc := map[*profile.Location]bool{}
	gone := map[*profile.Location]bool{}
	for _, l := range p.Location {
		bin := ""
		if l.Mapping != nil {
			bin = l.Mapping.File
		}
		var surv []frame
		if len(l.Line) == 0 {
			surv = append(surv, frame{Bin: bin, Addr: l.Address})
		}
		for _, ln := range l.Line {
			surv = append(surv, frame{Name: ln.Function.Name, File: ln.Function.Filename, Bin: bin, HasFn: true})
		}
		var kept []frame
		for _, fr := range surv {
			if hide != nil && fr.matches(hide) || show != nil && !fr.matches(show) {
				continue
			}
			kept = append(kept, fr)
		}
		if len(kept) == 0 {
			gone[l] = true
			continue
		}
		binMatch := bin != "" && re.MatchString(bin)
		last := -1
		for i, fr := range kept {
			if fr.HasFn && (re.MatchString(fr.Name) || re.MatchString(fr.File)) {
				last = i
			}
		}
		if binMatch || last >= 0 {
			matchLoc[l] = true
		}
		if !binMatch && last >= 0 && last < len(kept)-1 {
			inner[l] = true
		}
	}
	for _, s := range p.Sample {
		hi := -1
		for i, l := range s.Location {
			if matchLoc[l] {
				hi = i
			}
		}
		for i, l := range s.Location {
			if inner[l] && i < hi {
				return true
			}
		}
	}
	return false
}

func check(c *filterCase, o *vk.Obs) []string {
	var e vk.Errs
	p := c.P.Build().Copy() // what pprof sees is the parsed form
	orig := flatten(p)
	ex := apply(p, c.F)
	if ex.undecided {
		o.Label("undecided-units")
		o.Inconcl = append(o.Inconcl, "numeric tag filter against a label in an unknown unit")
		return nil
	}
	idx := len(p.SampleType) - 1
	out, res, err := runProto(p, c.F)
	if c.Interactive && typable(c.F) {
		out, res, err = runProtoInteractive(p, c.F)
		o.Label("typed-at-the-prompt")
	}
	if err != nil {
		if res != nil && res.Panic != "" {
			return []string{err.Error()}
		}
		e.Addf("pprof -proto with filters %+v failed: %v", c.F, err)
		return e
	}
	got := flatten(out)
	for i := range got {
		got[i].Labels = model.LabelString(out.Sample[i], true)
	}
	keptSome, removedSome := len(ex.samples) > 0, len(ex.samples) < len(orig)
	framesCut := false
	for _, s := range ex.samples {
		if len(s.Frames) != len(framesOf(s.src)) {
			framesCut = true
		}
	}
	o.LabelIf(c.F.Focus != "", "focus")
	o.LabelIf(c.F.Ignore != "", "ignore")
	o.LabelIf(c.F.Hide != "", "hide")
	o.LabelIf(c.F.Show != "", "show")
	o.LabelIf(c.F.ShowFrom != "", "show_from")
	o.LabelIf(c.F.TagFocus != "", "tagfocus")
	o.LabelIf(c.F.TagIgnore != "", "tagignore")
	o.LabelIf(strings.Contains(c.F.TagFocus+c.F.TagIgnore, ":") || regexp.MustCompile(`(^|=)[0-9]`).MatchString(c.F.TagFocus+" "+c.F.TagIgnore), "numeric-range")
	o.LabelIf(c.F.TagShow+c.F.TagHide != "", "tagshow/hide")
	for _, expr := range []string{c.F.TagFocus, c.F.TagIgnore} {
		val := expr
		if i := strings.Index(expr, "="); i >= 0 {
			val = expr[i+1:]
		}
		if r, ok := parseRange(val); ok && r.known {
			for _, sm := range p.Sample {
				for k, vals := range sm.NumLabel {
					lu := labelUnit(p, k)
					fam, f, known := unitOf(lu)
					_, fb, _ := unitOf(r.unit)
					for _, v := range vals {
						if known && fam == r.fam && f != fb && ((r.hasLo && float64(v)*f == r.lo) || (r.hasHi && float64(v)*f == r.hi)) {
							o.Label("range-bound-equals-a-label-in-another-unit")
							o.LabelIf(f == 1 && fam == 2, "range-bound-in-seconds-equals-a-label-in-nanoseconds")
						}
					}
				}
			}
		}
	}
	o.LabelIf(framesCut, "frames-removed")
	o.LabelIf(removedSome && keptSome, "samples-partitioned")
	labelsCut := false
	for _, s := range ex.samples {
		if s.Labels != model.LabelString(s.src, true) {
			labelsCut = true
		}
	}
	o.LabelIf(labelsCut, "labels-removed")
	o.NonTrivial = (removedSome && keptSome) || framesCut || labelsCut

	sfHit := showFromSharedHit(p, comp(c.F.ShowFrom), comp(c.F.Hide), comp(c.F.Show))
	if len(got) != len(ex.samples) {
		e.Addf("filters %+v: %d samples survive, the documentation says %d\n   want %v\n   got  %v", c.F, len(got), len(ex.samples), describe(ex.samples), describe(got))
	} else {
		for i := range got {
			w, g := ex.samples[i], got[i]
			if fmt.Sprint(w.Values) != fmt.Sprint(g.Values) {
				e.Addf("sample %d: values changed from %v to %v", i, w.Values, g.Values)
			}
			if w.Labels != g.Labels {
				e.Addf("sample %d: labels: want %s got %s", i, w.Labels, g.Labels)
			}
			if fstr(w.Frames) != fstr(g.Frames) {
				if sfHit && vk.Known("C06-showfrom-shared-trim") {
					o.Exclude("C06-showfrom-shared-trim")
					continue
				}
				e.Addf("filters %+v sample %d: frames (leaf first)\n   want %s\n   got  %s", c.F, i, fstr(w.Frames), fstr(g.Frames))
			}
		}
	}
	// relative_percentages only changes the total used for percentages
	{
		fl := c.F.flags()
		fl["top"] = "true"
		fl["trim"] = "false"
		fl["addresses"], fl["functions"] = "true", "false"
		r := pp.Run(pp.Req{Flags: fl, Args: []string{"src"}, Sources: map[string]*pp.Source{"src": {Prof: p}}})
		if r.Panic != "" {
			e.Addf("pprof -top panicked: %s", r.Panic)
		} else if r.Err == nil {
			lg, _, perr := model.ParseTop(r.Out("out"))
			if perr == nil && lg.HasShowing {
				want := total(orig, idx)
				if c.F.Relative {
					want = total(ex.samples, idx)
				}
				if int64(lg.Total) != want && len(e) == 0 {
					e.Addf("filters %+v: report total is %s, expected %d (relative_percentages=%v)", c.F, lg.TotalStr, want, c.F.Relative)
				}
			}
		}
	}
	// the same filters seen through a text report at the default (functions) granularity: -traces lists every
	// surviving sample that still has frames, with the function names of its frames
	if allNamed(p) && !sfHit && ex.undecided == false {
		fl := c.F.flags()
		fl["traces"] = "true"
		res := pp.Run(pp.Req{Flags: fl, Args: []string{"src"}, Sources: map[string]*pp.Source{"src": {Prof: p}}})
		switch {
		case res.Panic != "":
			return []string{"pprof -traces panicked: " + res.Panic}
		case res.Err != nil:
			nonEmpty := false
			for _, s := range ex.samples {
				if len(s.Frames) > 0 {
					nonEmpty = true
				}
			}
			if nonEmpty {
				e.Addf("pprof -traces with filters %+v failed although samples survive: %v", c.F, res.Err)
			}
		default:
			_, trs, err := model.ParseTraces(res.Out("out"))
			if err != nil {
				e.Addf("cannot parse -traces output: %v", err)
				break
			}
			var want []string
			for _, s := range ex.samples {
				if len(s.Frames) == 0 {
					continue
				}
				var names []string
				for _, fr := range s.Frames {
					names = append(names, fr.Name)
				}
				want = append(want, fmt.Sprintf("%d %s", s.Values[idx], strings.Join(names, "<")))
			}
			var got []string
			for _, tr := range trs {
				got = append(got, fmt.Sprintf("%d %s", tr.Value, strings.Join(tr.Names, "<")))
			}
			if strings.Join(want, "|") != strings.Join(got, "|") {
				e.Addf("filters %+v: -traces (functions granularity) lists\n   %q\nthe documentation says\n   %q", c.F, got, want)
			}
			o.Label("traces-view")
		}
	}
	// the public API called directly on an in-memory profile whose samples share their location lists
	// (a converter that builds one list per distinct stack): hide/show must not write through the sharing
	if c.F.ShowFrom == "" && c.F.TagFocus+c.F.TagIgnore+c.F.TagShow+c.F.TagHide == "" && !ex.undecided {
		q := c.P.Build().Copy()
		shared := false
		for j := range q.Sample {
			for i := 0; i < j; i++ {
				a, b := q.Sample[i].Location, q.Sample[j].Location
				if len(a) >= len(b) && len(b) > 0 && sameLocs(a[len(a)-len(b):], b) {
					// sample j's stack is sample i's stack, or its root-side tail: one backing array
					q.Sample[j].Location = a[len(a)-len(b):]
					shared = true
					break
				}
			}
		}
		if shared {
			o.Label("shared-location-lists")
			q.FilterSamplesByName(comp(c.F.Focus), comp(c.F.Ignore), comp(c.F.Hide), comp(c.F.Show))
			gotD := flatten(q)
			if len(gotD) != len(ex.samples) {
				e.Addf("FilterSamplesByName called directly (filters %+v, samples sharing location lists): %d samples survive, the documentation says %d", c.F, len(gotD), len(ex.samples))
			} else {
				for i := range gotD {
					if fstr(gotD[i].Frames) != fstr(ex.samples[i].Frames) || fmt.Sprint(gotD[i].Values) != fmt.Sprint(ex.samples[i].Values) {
						e.Addf("FilterSamplesByName called directly (filters %+v, samples sharing location lists) sample %d: frames (leaf first)\n   want %s\n   got  %s", c.F, i, fstr(ex.samples[i].Frames), fstr(gotD[i].Frames))
					}
				}
			}
		}
	}
	// partition law: focus=R and ignore=R split the unfiltered profile
	if c.PartR != "" {
		fo, _, err1 := runProto(p, Filt{Focus: c.PartR})
		ig, _, err2 := runProto(p, Filt{Ignore: c.PartR})
		if err1 != nil || err2 != nil {
			e.Addf("partition runs failed: %v / %v", err1, err2)
		} else {
			canon := func(q *profile.Profile) model.Canon {
				c := model.Canon{}
				for i, ms := range flatten(q) {
					c.Add(fstr(ms.Frames)+" {"+model.LabelString(q.Sample[i], true)+"}", ms.Values, 1)
				}
				return c
			}
			all := canon(p)
			sum := canon(fo)
			for k, v := range canon(ig) {
				sum.Add(k, v, 1)
			}
			if !all.Equal(sum) {
				e.Addf("focus=%q and ignore=%q do not partition the profile:\n%s", c.PartR, c.PartR, all.Diff(sum))
			}
			if len(fo.Sample)+len(ig.Sample) != len(p.Sample) {
				e.Addf("focus=%q keeps %d samples and ignore=%q keeps %d, the profile has %d", c.PartR, len(fo.Sample), c.PartR, len(ig.Sample), len(p.Sample))
			}
		}
	}
	return e
}

func describe(ss []msample) []string {
	var out []string
	for _, s := range ss {
		out = append(out, fmt.Sprintf("%v[%s]{%s}", s.Values, fstr(s.Frames), s.Labels))
	}
	sort.Strings(out)
	return out
}

func TestPropFilter(t *testing.T) {
	vk.Main(t, vk.Spec[filterCase]{ID: "C06", Facet: "filter", Quick: 4000, Thorough: 25000, Gen: genCase, Check: check, Journal: true,
		Rule: "generated profiles (shared and inlined locations, empty stacks, unsymbolized frames, binaries whose names match too) x filter sets from a grammar (regexps built from the case's own function/file/binary names: literal, anchored, alternation, prefix.*, (?i), class, suffix, non-matching; tag filters: regex, regex1,regex2, key=..., numeric N, N:, :M, N:M with memory/time units) for focus/ignore/hide/show/show_from/tagfocus/tagignore/tagshow/taghide/relative_percentages, plus the focus=R/ignore=R partition; oracle: frame-level reference filter model from doc/README.md, observed through -proto and -top; non-trivial = the filters keep some samples and remove others, or remove frames"})
}

// allNamed: every frame has a non-empty function name without white space, and values print losslessly,
// so that the -traces text identifies the frames.
func allNamed(p *profile.Profile) bool {
	for _, l := range p.Location {
		if len(l.Line) == 0 {
			return false
		}
		for _, ln := range l.Line {
			if ln.Function == nil || ln.Function.Name == "" || strings.ContainsAny(ln.Function.Name, " \t\n") {
				return false
			}
		}
	}
	st := p.SampleType[len(p.SampleType)-1]
	return st.Unit == "count" || st.Unit == "widgets"
}

// typable: every filter value can be typed on one interactive line (no white space, no comment marker).
func typable(f Filt) bool {
	for _, v := range []string{f.Focus, f.Ignore, f.Hide, f.Show, f.ShowFrom, f.TagFocus, f.TagIgnore, f.TagShow, f.TagHide} {
		if strings.ContainsAny(v, " \t\n") || strings.Contains(v, "//:") || strings.HasPrefix(v, ">") {
			return false
		}
	}
	return true
}

// runProtoInteractive types the filters as "name=value" lines at the interactive prompt and saves the result with "proto >out".
func runProtoInteractive(p *profile.Profile, f Filt) (*profile.Profile, *pp.Res, error) {
	fl := f.flags()
	var lines []string
	for _, k := range []string{"focus", "ignore", "hide", "show", "show_from", "tagfocus", "tagignore", "tagshow", "taghide"} {
		lines = append(lines, k+"="+fl[k])
	}
	// a word that is not a number (a bare number is the documented node-count argument)
	wordRx, numRx := regexp.MustCompile(`^[A-Za-z_0-9][A-Za-z0-9_.|]*$`), regexp.MustCompile(`^[0-9]+$`)
	word := func(s string) bool { return wordRx.MatchString(s) && !numRx.MatchString(s) }
	// ("-cum" is the documented sort switch of interactive commands, not an ignore expression)
	if (f.Focus == "" || word(f.Focus)) && (f.Ignore == "" || word(f.Ignore)) && f.Focus+f.Ignore != "" && f.Ignore != "cum" {
		// the same two filters as arguments of the command: "proto focus -ignore >out"
		lines = nil
		for _, k := range []string{"hide", "show", "show_from", "tagfocus", "tagignore", "tagshow", "taghide"} {
			lines = append(lines, k+"="+fl[k])
		}
		cmd := "proto"
		if f.Focus != "" {
			cmd += " " + f.Focus
		}
		if f.Ignore != "" {
			cmd += " -" + f.Ignore
		}
		lines = append(lines, "relative_percentages="+fl["relative_percentages"], cmd+" >out")
		res := pp.Run(pp.Req{Args: []string{"src"}, Sources: map[string]*pp.Source{"src": {Prof: p}}, Lines: lines})
		if res.Panic != "" {
			return nil, res, fmt.Errorf("pprof panicked: %s", res.Panic)
		}
		if data := res.Out("out"); data != "" {
			out, err := profile.ParseData([]byte(data))
			return out, res, err
		}
		_, errs := res.UI.Snapshot()
		return nil, res, fmt.Errorf("interactive '%s >out' wrote nothing: %.300q", cmd, errs)
	}
	lines = append(lines, "relative_percentages="+fl["relative_percentages"], "proto >out")
	res := pp.Run(pp.Req{Args: []string{"src"}, Sources: map[string]*pp.Source{"src": {Prof: p}}, Lines: lines})
	if res.Panic != "" {
		return nil, res, fmt.Errorf("pprof panicked: %s", res.Panic)
	}
	if res.Err != nil {
		return nil, res, res.Err
	}
	data := res.Out("out")
	if data == "" {
		_, errs := res.UI.Snapshot()
		return nil, res, fmt.Errorf("interactive 'proto >out' wrote nothing: %.300q", errs)
	}
	out, err := profile.ParseData([]byte(data))
	return out, res, err
}

func sameLocs(a, b []*profile.Location) bool {
	if len(a) != len(b) {
		return false
	}
	for i := range a {
		if a[i] != b[i] {
			return false
		}
	}
	return true
}
