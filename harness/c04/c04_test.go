package c04

import (
	"testing"

	"github.com/google/pprof/xverif/rep"
	"github.com/google/pprof/xverif/vk"
)

func TestPropReport(t *testing.T) {
	vk.Main(t, vk.Spec[rep.ReportCase]{ID: "C04", Facet: "report", Journal: true, Quick: 8000, Thorough: 40000, Gen: rep.GenCase,
		Check: func(c *rep.ReportCase, o *vk.Obs) []string { return rep.CheckReport(c.P, c.C, o) },
		Rule:  "generated profiles (recursion, inlined multi-line locations, locations shared between samples, empty stacks, unsymbolized frames with and without mapping, negative values, 1..3 sample types, labels) x granularity x noinlines x showcolumns x sample_index (default/index/name/inuse_ alias) x mean x call_tree x tagroot/tagleaf x format (top,text,tree,peek,traces,dot,topproto,callgrind,web /top table data), trimming off; oracle: reference model computing flat/cum/edges/total from their definition, read back through independent output parsers; non-trivial = (recursion or inlined or shared location) and >=2 samples with non-zero selected value"})
}
