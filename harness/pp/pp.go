// Package pp runs pprof in-process through its own plug-in seams
// (plugin.Options): generated flags, sources, UI script, writer, object tool,
// symbolizer and HTTP server are all supplied by the harness.
package pp

import (
	"bytes"
	"fmt"
	"io"
	"net/http"
	"net/http/httptest"
	"os"
	"regexp"
	"runtime/debug"
	"sort"
	"strconv"
	"strings"
	"sync"
	"time"

	"github.com/google/pprof/internal/driver"
	"github.com/google/pprof/internal/plugin"
	"github.com/google/pprof/profile"
)

// Defaults holds an explicit value for every configuration flag: pprof keeps
// the current configuration in a process-global, so every run pins all of it.
var Defaults = map[string]string{
	"call_tree": "false", "relative_percentages": "false", "unit": "minimum", "compact_labels": "false",
	"source_path": "", "trim_path": "", "intel_syntax": "false", "mean": "false", "sample_index": "",
	"divide_by": "1", "normalize": "false", "tagroot": "", "tagleaf": "", "drop_negative": "false",
	"nodecount": "-1", "nodefraction": "0.005", "edgefraction": "0.001", "trim": "true",
	"focus": "", "ignore": "", "prune_from": "", "hide": "", "show": "", "show_from": "",
	"tagfocus": "", "tagignore": "", "tagshow": "", "taghide": "", "noinlines": "false", "showcolumns": "false",
	"output": "",
	// radio groups: exactly one choice each
	"flat": "true", "cum": "false",
	"functions": "true", "filefunctions": "false", "files": "false", "lines": "false", "addresses": "false",
	"symbolize": "none",
}

var granularities = []string{"functions", "filefunctions", "files", "lines", "addresses"}

// Flags is a map-backed plugin.FlagSet.
type Flags struct {
	Vals  map[string]string
	Lists map[string][]string
	Args  []string
	mu    sync.Mutex
	errs  []string
}

func (f *Flags) get(name string) (string, bool) {
	v, ok := f.Vals[name]
	return v, ok
}

func (f *Flags) Bool(name string, def bool, usage string) *bool {
	v := def
	if s, ok := f.get(name); ok {
		b, err := strconv.ParseBool(s)
		if err != nil {
			f.errs = append(f.errs, fmt.Sprintf("flag %s: %v", name, err))
		} else {
			v = b
		}
	}
	return &v
}

func (f *Flags) Int(name string, def int, usage string) *int {
	v := def
	if s, ok := f.get(name); ok {
		n, err := strconv.Atoi(s)
		if err != nil {
			f.errs = append(f.errs, fmt.Sprintf("flag %s: %v", name, err))
		} else {
			v = n
		}
	}
	return &v
}

func (f *Flags) Float64(name string, def float64, usage string) *float64 {
	v := def
	if s, ok := f.get(name); ok {
		n, err := strconv.ParseFloat(s, 64)
		if err != nil {
			f.errs = append(f.errs, fmt.Sprintf("flag %s: %v", name, err))
		} else {
			v = n
		}
	}
	return &v
}

func (f *Flags) String(name string, def string, usage string) *string {
	v := def
	if s, ok := f.get(name); ok {
		v = s
	}
	return &v
}

func (f *Flags) StringList(name string, def string, usage string) *[]*string {
	var out []*string
	for _, s := range f.Lists[name] {
		s := s
		out = append(out, &s)
	}
	return &out
}

func (f *Flags) ExtraUsage() string          { return "" }
func (f *Flags) AddExtraUsage(eu string)     {}
func (f *Flags) Parse(usage func()) []string { return f.Args }

// UI is a scripted plugin.UI that records everything printed.
type UI struct {
	mu     sync.Mutex
	Lines  []string // input lines; io.EOF afterwards
	pos    int
	Prints []string
	Errs   []string
	// OnRead, when set, is called before each line is handed out (index of the line).
	OnRead func(i int)
	// Hook is called on every PrintErr (used for schedule perturbation).
	Hook func(msg string)
}

func (u *UI) ReadLine(prompt string) (string, error) {
	u.mu.Lock()
	if u.pos >= len(u.Lines) {
		u.mu.Unlock()
		return "", io.EOF
	}
	i := u.pos
	u.pos++
	l := u.Lines[i]
	cb := u.OnRead
	u.mu.Unlock()
	if cb != nil {
		cb(i)
	}
	return l, nil
}

func (u *UI) Print(args ...interface{}) {
	u.mu.Lock()
	u.Prints = append(u.Prints, fmt.Sprint(args...))
	u.mu.Unlock()
}

func (u *UI) PrintErr(args ...interface{}) {
	msg := fmt.Sprint(args...)
	u.mu.Lock()
	u.Errs = append(u.Errs, msg)
	h := u.Hook
	u.mu.Unlock()
	if h != nil {
		h(msg)
	}
}

func (u *UI) IsTerminal() bool                             { return false }
func (u *UI) WantBrowser() bool                            { return false }
func (u *UI) SetAutoComplete(complete func(string) string) {}

// Snapshot returns copies of what was printed so far.
func (u *UI) Snapshot() (prints, errs []string) {
	u.mu.Lock()
	defer u.mu.Unlock()
	return append([]string{}, u.Prints...), append([]string{}, u.Errs...)
}

// Writer captures files written through plugin.Writer.
type Writer struct {
	mu    sync.Mutex
	Files map[string]*bytes.Buffer
	Order []string
	Fail  map[string]error
}

type wc struct {
	*bytes.Buffer
}

func (wc) Close() error { return nil }

func (w *Writer) Open(name string) (io.WriteCloser, error) {
	w.mu.Lock()
	defer w.mu.Unlock()
	if err := w.Fail[name]; err != nil {
		return nil, err
	}
	if w.Files == nil {
		w.Files = map[string]*bytes.Buffer{}
	}
	b := &bytes.Buffer{}
	w.Files[name] = b
	w.Order = append(w.Order, name)
	return wc{b}, nil
}

func (w *Writer) Get(name string) ([]byte, bool) {
	w.mu.Lock()
	defer w.mu.Unlock()
	b, ok := w.Files[name]
	if !ok {
		return nil, false
	}
	return append([]byte{}, b.Bytes()...), true
}

// Source is one fetchable profile source.
type Source struct {
	Prof *profile.Profile // served as a fresh Copy
	Data []byte           // or: raw bytes to be parsed
	Err  error            // or: a fetch error
	// Gate, when non-nil, is called inside Fetch before returning (schedule control).
	Gate func(name string)
}

// Fetcher serves sources by name.
type Fetcher struct {
	Srcs  map[string]*Source
	mu    sync.Mutex
	Calls []string
	// URL is the value returned as the "source URL"; "" means local.
	URL func(name string) string
}

func (f *Fetcher) Fetch(src string, duration, timeout time.Duration) (*profile.Profile, string, error) {
	f.mu.Lock()
	f.Calls = append(f.Calls, src)
	s := f.Srcs[src]
	f.mu.Unlock()
	if s == nil {
		return nil, "", fmt.Errorf("source %q not found", src)
	}
	if s.Gate != nil {
		s.Gate(src)
	}
	if s.Err != nil {
		return nil, "", s.Err
	}
	url := ""
	if f.URL != nil {
		url = f.URL(src)
	}
	if s.Data != nil {
		p, err := profile.ParseData(s.Data)
		return p, url, err
	}
	return s.Prof.Copy(), url, nil
}

// NoObj is an ObjTool without any binaries.
type NoObj struct{}

func (NoObj) Open(file string, start, limit, offset uint64, relocationSymbol string) (plugin.ObjFile, error) {
	return nil, fmt.Errorf("no object files in the harness: %s", file)
}
func (NoObj) Disasm(file string, start, end uint64, intelSyntax bool) ([]plugin.Inst, error) {
	return nil, fmt.Errorf("no disassembler in the harness")
}

// NoSym is a Symbolizer that does nothing.
type NoSym struct{}

func (NoSym) Symbolize(mode string, srcs plugin.MappingSources, prof *profile.Profile) error {
	return nil
}

// Req describes one pprof invocation.
type Req struct {
	Flags   map[string]string   // merged over Defaults
	Lists   map[string][]string // base, diff_base
	Args    []string            // source names
	Sources map[string]*Source
	Lines   []string // interactive input
	Obj     plugin.ObjTool
	Sym     plugin.Symbolizer
	UI      *UI
	Writer  *Writer
	// DefaultRT: leave Options.HTTPTransport unset, so that pprof uses its own HTTP(S) transport
	DefaultRT bool
	// StdUI: leave Options.UI unset, so that pprof prints its messages itself (to the process's stderr)
	StdUI bool
	// OSWriter: leave Options.Writer unset, so that pprof writes output files itself (relative to the working directory)
	OSWriter bool
	Fetcher  *Fetcher
	HTTP     func(args *plugin.HTTPServerArgs) error
	RT       http.RoundTripper
	NoFetch  bool // use pprof's own fetcher (files / URLs)
	// DefaultSym: let pprof build its own symbolizer on top of Obj and RT
	DefaultSym bool
}

// Res is the outcome.
type Res struct {
	Err    error
	Panic  string
	W      *Writer
	UI     *UI
	Stdout string
	F      *Fetcher
}

// Out returns the file written under name (or "" when missing).
func (r *Res) Out(name string) string {
	b, _ := r.W.Get(name)
	return string(b)
}

// SetGranularity sets the radio group in flags.
func SetGranularity(flags map[string]string, g string) {
	for _, x := range granularities {
		flags[x] = "false"
	}
	if g == "" {
		g = "functions"
	}
	flags[g] = "true"
}

var stdoutMu sync.Mutex

// CaptureStdout runs f with os.Stdout redirected to a pipe and returns what was written.
func CaptureStdout(f func()) string {
	stdoutMu.Lock()
	defer stdoutMu.Unlock()
	old := os.Stdout
	r, w, err := os.Pipe()
	if err != nil {
		f()
		return ""
	}
	os.Stdout = w
	done := make(chan string)
	go func() {
		b, _ := io.ReadAll(r)
		done <- string(b)
	}()
	func() {
		defer func() {
			os.Stdout = old
			w.Close()
		}()
		f()
	}()
	out := <-done
	r.Close()
	return out
}

// Run executes pprof once. Panics on the calling goroutine are recovered and reported in Res.Panic.
func Run(q Req) *Res { return run(q, true) }

// RunNoCapture is Run without redirecting os.Stdout (which serialises callers): for concurrent runs.
func RunNoCapture(q Req) *Res { return run(q, false) }

func run(q Req, capture bool) *Res {
	flags := map[string]string{}
	for k, v := range Defaults {
		flags[k] = v
	}
	for k, v := range q.Flags {
		flags[k] = v
	}
	fs := &Flags{Vals: flags, Lists: q.Lists, Args: q.Args}
	ui := q.UI
	if ui == nil {
		ui = &UI{}
	}
	ui.Lines = append(ui.Lines, q.Lines...)
	w := q.Writer
	if w == nil {
		w = &Writer{}
	}
	fe := q.Fetcher
	if fe == nil {
		fe = &Fetcher{Srcs: q.Sources}
	}
	o := &plugin.Options{Writer: w, Flagset: fs, UI: ui, Obj: q.Obj, Sym: q.Sym, HTTPServer: q.HTTP, HTTPTransport: q.RT}
	if q.OSWriter {
		o.Writer = nil
	}
	if q.StdUI {
		o.UI = nil
	}
	if !q.NoFetch {
		o.Fetch = fe
	}
	if o.Obj == nil {
		o.Obj = NoObj{}
	}
	if o.Sym == nil && !q.DefaultSym {
		o.Sym = NoSym{}
	}
	if o.HTTPTransport == nil && !q.DefaultRT {
		o.HTTPTransport = failRT{}
	}
	res := &Res{W: w, UI: ui, F: fe}
	body := func() {
		defer func() {
			if r := recover(); r != nil {
				res.Panic = fmt.Sprintf("%v\n%s", r, trim(debug.Stack()))
			}
		}()
		res.Err = driver.PProf(o)
	}
	if capture {
		res.Stdout = CaptureStdout(body)
	} else {
		body()
	}
	if len(fs.errs) > 0 && res.Err == nil {
		res.Err = fmt.Errorf("flag parse: %s", strings.Join(fs.errs, "; "))
	}
	return res
}

func trim(b []byte) string {
	l := strings.Split(string(b), "\n")
	if len(l) > 50 {
		l = l[:50]
	}
	return strings.Join(l, "\n")
}

type failRT struct{}

func (failRT) RoundTrip(*http.Request) (*http.Response, error) {
	return nil, fmt.Errorf("no network in the harness")
}

// Web starts pprof's web interface with a capturing HTTPServer and returns
// the handlers. The returned stop function lets PProf return.
type Web struct {
	Handlers map[string]http.Handler
	Res      *Res
	done     chan struct{}
	stop     chan struct{}
}

// StartWeb launches PProf -http in a goroutine and waits until the handlers are registered.
func StartWeb(q Req) (*Web, error) { return startWeb(q, true) }

// StartWebNoCapture is StartWeb without redirecting the process's stdout for the lifetime of the server
// (the redirection is process-wide and exclusive: a second server started meanwhile would wait for it).
func StartWebNoCapture(q Req) (*Web, error) { return startWeb(q, false) }

func startWeb(q Req, capture bool) (*Web, error) {
	w := &Web{done: make(chan struct{}), stop: make(chan struct{})}
	ready := make(chan struct{})
	q.HTTP = func(args *plugin.HTTPServerArgs) error {
		w.Handlers = args.Handlers
		close(ready)
		<-w.stop
		return nil
	}
	if q.Flags == nil {
		q.Flags = map[string]string{}
	}
	q.Flags["http"] = "localhost:0"
	q.Flags["no_browser"] = "true"
	go func() {
		w.Res = run(q, capture)
		close(w.done)
	}()
	select {
	case <-ready:
		return w, nil
	case <-w.done:
		if w.Res.Err != nil {
			return nil, w.Res.Err
		}
		return nil, fmt.Errorf("web interface did not start: panic=%s", w.Res.Panic)
	case <-time.After(60 * time.Second):
		return nil, fmt.Errorf("web interface did not start within 60s")
	}
}

// Get performs a request against a handler path ("/top?f=x").
func (w *Web) Get(target string) (int, string, http.Header, string) {
	path := target
	if i := strings.IndexByte(target, '?'); i >= 0 {
		path = target[:i]
	}
	h := w.Handlers[path]
	if h == nil {
		return 404, "", nil, ""
	}
	var pan string
	rec := httptest.NewRecorder()
	func() {
		defer func() {
			if r := recover(); r != nil {
				pan = fmt.Sprintf("%v\n%s", r, trim(debug.Stack()))
			}
		}()
		req := httptest.NewRequest("GET", "http://localhost"+target, nil)
		h.ServeHTTP(rec, req)
	}()
	return rec.Code, rec.Body.String(), rec.Header(), pan
}

// Close lets the PProf call return.
func (w *Web) Close() {
	close(w.stop)
	<-w.done
}

var _ = regexp.MustCompile
var _ = sort.Strings
