package c02

import (
	"bytes"
	"compress/gzip"
	"encoding/binary"
	"fmt"
	"os"
	"path/filepath"
	"sort"
	"strings"
	"testing"
	"time"

	"github.com/google/pprof/profile"
	"github.com/google/pprof/xverif/gen"
	"github.com/google/pprof/xverif/model"
	"github.com/google/pprof/xverif/pp"
	"github.com/google/pprof/xverif/vk"
	"pgregory.net/rapid"
)

type Mut struct {
	Kind int
	Pos  int
	Val  uint64
	Len  int
}

type SoupField struct {
	Field int
	Wire  int
	Val   uint64
	Bytes []byte
	Sub   []SoupField
}

type parseCase struct {
	Base   int // 0 encoded generated profile, 1 independent wire writer, 2 corpus file, 3 wire soup, 4 binary cpu words, 5 raw bytes, 6 legacy text from token pools
	P      *gen.Prof
	Tape   []byte
	Seed   uint64
	Corpus int
	Soup   []SoupField
	Words  []uint64
	WordSz int
	BigEnd bool
	Tail   string
	Raw    []byte
	Text   string // base 6: legacy text document assembled from token pools
	Muts   []Mut
	Gzip   int // 0 none, 1 gzip, 2 gzip then mutate the compressed stream
}

var profOpts = gen.Opts{Alpha: gen.Hostile, MaxSamples: 5, MaxDepth: 4, MaxLines: 3, MinTypes: 0, MaxTypes: 3, Extreme: true, AnyIDs: true, Unused: true,
	Labels: true, NumLabels: true, EmptyLabel: true, EmptyStacks: true, NoMapping: true, Unsym: true, Header: true, Columns: true, Folded: true}

var corpus [][]byte
var corpusNames []string

func loadCorpus() {
	if corpus != nil {
		return
	}
	root := "/repo"
	if r := os.Getenv("VERIF_REPO"); r != "" {
		root = r
	}
	for _, dir := range []string{"profile/testdata", "internal/driver/testdata", "fuzz/testdata"} {
		filepath.Walk(filepath.Join(root, dir), func(path string, info os.FileInfo, err error) error {
			if err == nil && !info.IsDir() && info.Size() < 64<<10 && !strings.HasSuffix(path, ".string") {
				if b, err := os.ReadFile(path); err == nil {
					if gz, err := gzip.NewReader(bytes.NewReader(b)); err == nil {
						var ub bytes.Buffer
						if _, err := ub.ReadFrom(gz); err == nil && ub.Len() < 64<<10 {
							b = ub.Bytes()
						}
					}
					corpus = append(corpus, b)
					corpusNames = append(corpusNames, path)
				}
			}
			return nil
		})
	}
	// hostile constants
	for _, s := range []string{"", "\n", "heap profile: 1: 2 [3: 4] @ heapprofile\n", "--- heapz 1 ---\n", "--- contentionz 1 ---\n", "--- threadz 1 ---\n", "goroutine profile: total 1\n1 @ 0x1\n",
		"heap profile: 1: 2 [3: 4] @ heap_v2/524288\n1: 2 [3: 4] @ 0x1 0x2\n", "--- contention:\ncycles/second=1\n1 2 @ 0x3\n", "%", "MAPPED_LIBRARIES:\n"} {
		corpus = append(corpus, []byte(s))
		corpusNames = append(corpusNames, "const:"+s)
	}
	if len(corpus) == 0 {
		corpus = [][]byte{{}}
		corpusNames = []string{"empty"}
	}
}

var hostileU64 = []uint64{0, 1, 2, 3, 127, 128, 255, 1 << 31, 1<<32 - 1, 1 << 32, 1<<63 - 1, 1 << 63, 1<<64 - 1, 1<<64 - 2, 0x7fffffff, 0xffff, 16, 1000000}

func genSoup(t *rapid.T, depth int) []SoupField {
	n := rapid.IntRange(0, 6).Draw(t, "nfields")
	var out []SoupField
	for i := 0; i < n; i++ {
		f := SoupField{Field: rapid.IntRange(0, 17).Draw(t, "field"), Wire: rapid.SampledFrom([]int{0, 0, 0, 2, 2, 2, 1, 5, 3, 4, 6, 7}).Draw(t, "wire")}
		f.Val = rapid.OneOf(rapid.SampledFrom(hostileU64), rapid.Uint64Range(0, 40)).Draw(t, "val")
		if f.Wire == 2 {
			if depth < 3 && rapid.Bool().Draw(t, "nested") {
				f.Sub = genSoup(t, depth+1)
			} else {
				f.Bytes = rapid.SliceOfN(rapid.Byte(), 0, 12).Draw(t, "bytes")
			}
		}
		out = append(out, f)
	}
	return out
}

func genCase(t *rapid.T) *parseCase {
	loadCorpus()
	c := &parseCase{Base: rapid.SampledFrom([]int{0, 0, 0, 1, 1, 2, 2, 2, 3, 3, 4, 4, 5, 6, 6, 6}).Draw(t, "base")}
	switch c.Base {
	case 0, 1:
		c.P = gen.Profile(t, profOpts)
		c.Tape = rapid.SliceOfN(rapid.Byte(), 0, 64).Draw(t, "tape")
		c.Seed = rapid.Uint64().Draw(t, "seed")
	case 2:
		c.Corpus = rapid.IntRange(0, len(corpus)-1).Draw(t, "corpus")
	case 3:
		c.Soup = genSoup(t, 0)
	case 4:
		c.WordSz = rapid.SampledFrom([]int{4, 8}).Draw(t, "wordsz")
		c.BigEnd = rapid.Bool().Draw(t, "bigendian")
		period := rapid.SampledFrom([]uint64{0, 1, 10000, 1 << 40}).Draw(t, "period")
		c.Words = []uint64{0, 3, 0, period, 0}
		if rapid.IntRange(0, 5).Draw(t, "badhdr") == 0 {
			c.Words[rapid.IntRange(0, 4).Draw(t, "hdridx")] = rapid.SampledFrom(hostileU64).Draw(t, "hdrval")
		}
		nrec := rapid.IntRange(0, 5).Draw(t, "nrec")
		for i := 0; i < nrec; i++ {
			count := rapid.SampledFrom([]uint64{0, 1, 1, 2, 5, 1 << 40}).Draw(t, "count")
			nstk := rapid.SampledFrom([]uint64{0, 1, 1, 2, 3, 3, 1000, 1 << 31, 1<<64 - 1}).Draw(t, "nstk")
			c.Words = append(c.Words, count, nstk)
			k := int(nstk)
			if nstk > 6 {
				k = rapid.IntRange(0, 4).Draw(t, "fewer")
			}
			for j := 0; j < k; j++ {
				c.Words = append(c.Words, rapid.SampledFrom([]uint64{0, 1, 0x1000, 0x2000, 0x2008, 1<<64 - 1}).Draw(t, "pc"))
			}
		}
		if rapid.IntRange(0, 3).Draw(t, "trailer") != 0 {
			c.Words = append(c.Words, 0, 1, 0)
		}
		c.Tail = rapid.SampledFrom([]string{"", "MAPPED_LIBRARIES:\n00400000-00401000 r-xp 00000000 00:00 0 /bin/app\n", "00400000-00401000 r-xp 00000000 00:00 0 /bin/app\n", "garbage\n", "build=xyz\n"}).Draw(t, "tail")
	case 5:
		c.Raw = rapid.SliceOfN(rapid.Byte(), 0, 64).Draw(t, "raw")
	case 6:
		c.Text = genLegacyText(t)
	}
	nm := rapid.SampledFrom([]int{0, 1, 1, 1, 2, 3}).Draw(t, "nmuts")
	for i := 0; i < nm; i++ {
		c.Muts = append(c.Muts, Mut{Kind: rapid.IntRange(0, 14).Draw(t, "mkind"), Pos: rapid.IntRange(0, 4096).Draw(t, "mpos"),
			Val: rapid.OneOf(rapid.SampledFrom(hostileU64), rapid.Uint64Range(0, 300)).Draw(t, "mval"), Len: rapid.IntRange(1, 16).Draw(t, "mlen")})
	}
	c.Gzip = rapid.SampledFrom([]int{0, 0, 0, 1, 2}).Draw(t, "gzip")
	return c
}

func putVarint(b []byte, x uint64) []byte {
	for x >= 128 {
		b = append(b, byte(x)|0x80)
		x >>= 7
	}
	return append(b, byte(x))
}

func soupBytes(fs []SoupField) []byte {
	var b []byte
	for _, f := range fs {
		b = putVarint(b, uint64(f.Field)<<3|uint64(f.Wire))
		switch f.Wire {
		case 0:
			b = putVarint(b, f.Val)
		case 1:
			b = binary.LittleEndian.AppendUint64(b, f.Val)
		case 5:
			b = binary.LittleEndian.AppendUint32(b, uint32(f.Val))
		case 2:
			payload := f.Bytes
			if f.Sub != nil {
				payload = soupBytes(f.Sub)
			}
			n := uint64(len(payload))
			if f.Val > 1<<31 {
				n = f.Val // lying length prefix
			}
			b = putVarint(b, n)
			b = append(b, payload...)
		}
	}
	return b
}

// varintSpans lists the [start,end) byte ranges of the varints found by walking data as nested protobuf messages.
func varintSpans(data []byte, depth int, base int, out *[][2]int) {
	i := 0
	for i < len(data) {
		s := i
		var x uint64
		var sh uint
		ok := false
		for k := 0; i < len(data) && k < 10; k++ {
			c := data[i]
			i++
			x |= uint64(c&0x7f) << sh
			sh += 7
			if c&0x80 == 0 {
				ok = true
				break
			}
		}
		if !ok {
			return
		}
		*out = append(*out, [2]int{base + s, base + i})
		switch x & 7 {
		case 0:
			s2 := i
			for i < len(data) && data[i]&0x80 != 0 {
				i++
			}
			i++
			if i > len(data) {
				return
			}
			*out = append(*out, [2]int{base + s2, base + i})
		case 1:
			i += 8
		case 5:
			i += 4
		case 2:
			s2 := i
			var n uint64
			sh = 0
			for i < len(data) {
				c := data[i]
				i++
				n |= uint64(c&0x7f) << sh
				sh += 7
				if c&0x80 == 0 {
					break
				}
			}
			*out = append(*out, [2]int{base + s2, base + i})
			if n > uint64(len(data)-i) {
				return
			}
			if depth < 3 {
				varintSpans(data[i:i+int(n)], depth+1, base+i, out)
			}
			i += int(n)
		default:
			return
		}
	}
}

// topFields lists the [start,end) spans of the top-level protobuf fields (best effort).
func topFields(data []byte) [][2]int {
	var out [][2]int
	i := 0
	rd := func() (uint64, bool) {
		var x uint64
		var sh uint
		for k := 0; i < len(data) && k < 10; k++ {
			c := data[i]
			i++
			x |= uint64(c&0x7f) << sh
			sh += 7
			if c&0x80 == 0 {
				return x, true
			}
		}
		return 0, false
	}
	for i < len(data) {
		s := i
		tag, ok := rd()
		if !ok {
			break
		}
		switch tag & 7 {
		case 0:
			if _, ok := rd(); !ok {
				return out
			}
		case 1:
			i += 8
		case 5:
			i += 4
		case 2:
			n, ok := rd()
			if !ok || n > uint64(len(data)-i) {
				return out
			}
			i += int(n)
		default:
			return out
		}
		if i > len(data) {
			return out
		}
		out = append(out, [2]int{s, i})
	}
	return out
}

func applyMut(data []byte, m Mut) []byte {
	if len(data) == 0 && m.Kind != 5 {
		return data
	}
	pos := 0
	if len(data) > 0 {
		pos = m.Pos % len(data)
	}
	d := append([]byte{}, data...)
	switch m.Kind {
	case 0: // truncate
		return d[:pos]
	case 1: // flip a bit
		d[pos] ^= 1 << (m.Val % 8)
	case 2: // set a byte
		d[pos] = byte(m.Val)
	case 3: // delete a range
		end := min(len(d), pos+m.Len)
		return append(d[:pos], d[end:]...)
	case 4: // duplicate a range
		end := min(len(d), pos+m.Len)
		return append(d[:end], append(append([]byte{}, d[pos:end]...), d[end:]...)...)
	case 5: // insert hostile bytes
		ins := putVarint(nil, m.Val)
		return append(d[:pos], append(ins, d[pos:]...)...)
	case 6, 7, 8: // replace the k-th varint of the message tree by a hostile value
		var spans [][2]int
		varintSpans(d, 0, 0, &spans)
		if len(spans) == 0 {
			return d
		}
		sp := spans[m.Pos%len(spans)]
		v := m.Val
		if m.Kind == 7 { // length/id +-1 around the current value
			var cur uint64
			var sh uint
			for _, c := range d[sp[0]:sp[1]] {
				cur |= uint64(c&0x7f) << sh
				sh += 7
			}
			v = cur + 1
			if m.Val%2 == 0 && cur > 0 {
				v = cur - 1
			}
		}
		if m.Kind == 8 { // 10-byte varint with the top bit set
			v = 1<<63 | m.Val
		}
		return append(append(append([]byte{}, d[:sp[0]]...), putVarint(nil, v)...), d[sp[1]:]...)
	case 12, 13, 14: // duplicate / delete / move the k-th top-level field (a whole sample, location, function, ...)
		fs := topFields(d)
		if len(fs) == 0 {
			return d
		}
		f := fs[m.Pos%len(fs)]
		rec := append([]byte{}, d[f[0]:f[1]]...)
		switch m.Kind {
		case 12:
			return append(append(append([]byte{}, d[:f[1]]...), rec...), d[f[1]:]...)
		case 13:
			return append(append([]byte{}, d[:f[0]]...), d[f[1]:]...)
		default:
			rest := append(append([]byte{}, d[:f[0]]...), d[f[1]:]...)
			return append(rest, rec...)
		}
	case 9: // concatenate with itself
		return append(d, data...)
	case 10: // text: delete / duplicate / swap a line
		lines := bytes.SplitAfter(d, []byte("\n"))
		if len(lines) < 2 {
			return d
		}
		i := m.Pos % len(lines)
		switch m.Val % 3 {
		case 0:
			lines = append(lines[:i], lines[i+1:]...)
		case 1:
			lines = append(lines[:i+1], lines[i:]...)
		case 2:
			j := (i + 1) % len(lines)
			lines[i], lines[j] = lines[j], lines[i]
		}
		return bytes.Join(lines, nil)
	case 11: // text: replace a numeric token by a hostile number
		toks := []string{"0", "-1", "99999999999999999999", "18446744073709551615", "9223372036854775807", "0x", "0xffffffffffffffffff", "1e999", "-9223372036854775808", "", "4294967296"}
		// find the k-th digit run
		var runs [][2]int
		for i := 0; i < len(d); {
			if d[i] >= '0' && d[i] <= '9' {
				j := i
				for j < len(d) && (d[j] >= '0' && d[j] <= '9' || d[j] >= 'a' && d[j] <= 'f' || d[j] == 'x') {
					j++
				}
				runs = append(runs, [2]int{i, j})
				i = j
			} else {
				i++
			}
		}
		if len(runs) == 0 {
			return d
		}
		r := runs[m.Pos%len(runs)]
		return append(append(append([]byte{}, d[:r[0]]...), toks[m.Val%uint64(len(toks))]...), d[r[1]:]...)
	}
	return d
}

func gz(b []byte) []byte {
	var out bytes.Buffer
	w := gzip.NewWriter(&out)
	w.Write(b)
	w.Close()
	return out.Bytes()
}

// Input materialises the case as bytes.
func (c *parseCase) Input() []byte {
	loadCorpus()
	var data []byte
	switch c.Base {
	case 0:
		var b bytes.Buffer
		c.P.Build().WriteUncompressed(&b)
		data = b.Bytes()
	case 1:
		data = gen.Wire(c.P, &gen.Tape{B: c.Tape, Seed: c.Seed})
	case 2:
		data = corpus[c.Corpus%len(corpus)]
	case 3:
		data = soupBytes(c.Soup)
	case 4:
		var b []byte
		for _, w := range c.Words {
			switch {
			case c.WordSz == 4 && c.BigEnd:
				b = binary.BigEndian.AppendUint32(b, uint32(w))
			case c.WordSz == 4:
				b = binary.LittleEndian.AppendUint32(b, uint32(w))
			case c.BigEnd:
				b = binary.BigEndian.AppendUint64(b, w)
			default:
				b = binary.LittleEndian.AppendUint64(b, w)
			}
		}
		data = append(b, c.Tail...)
	case 5:
		data = c.Raw
	case 6:
		data = []byte(c.Text)
	}
	if c.Gzip == 2 {
		data = gz(data)
	}
	for _, m := range c.Muts {
		data = applyMut(data, m)
		if len(data) > 256<<10 {
			data = data[:256<<10]
		}
	}
	if c.Gzip == 1 {
		data = gz(data)
	}
	return data
}

var reportFormats = []string{"top", "tree", "peek", "traces", "raw", "tags", "comments", "dot", "callgrind", "topproto", "proto", "text"}

// Survive runs the downstream battery on a profile the parser accepted.
func Survive(p *profile.Profile, data []byte, e *vk.Errs) {
	step := func(name string, f func()) {
		if pan := vk.Safely(f); pan != "" {
			e.Addf("%s panicked on a profile the parser accepted: %s", name, pan)
		}
	}
	fresh := func() *profile.Profile {
		q, err := profile.ParseData(data)
		if err != nil {
			e.Addf("parsing the same bytes twice gives different verdicts: %v", err)
			return p
		}
		return q
	}
	var buf bytes.Buffer
	step("Write", func() { fresh().Write(&buf) })
	step("WriteUncompressed", func() {
		var b bytes.Buffer
		q := fresh()
		q.WriteUncompressed(&b)
		if _, err := profile.ParseData(b.Bytes()); err != nil && len(b.Bytes()) > 0 {
			e.Addf("re-serialised accepted profile is rejected: %v", err)
		}
	})
	step("Copy", func() {
		if err := model.Valid(fresh().Copy()); err != nil {
			e.Addf("Copy of an accepted profile is invalid: %v", err)
		}
	})
	step("Compact", func() {
		if c := fresh().Compact(); c != nil {
			if err := model.Valid(c); err != nil {
				e.Addf("Compact of an accepted profile is invalid: %v", err)
			}
		}
	})
	step("Merge", func() {
		q := fresh()
		if q.PeriodType == nil {
			return
		}
		m, err := profile.Merge([]*profile.Profile{q, fresh()})
		if err == nil {
			if err := model.Valid(m); err != nil {
				e.Addf("Merge of an accepted profile with itself is invalid: %v", err)
			}
		}
	})
	step("String", func() { _ = fresh().String() })
	step("RemoveUninteresting", func() { fresh().RemoveUninteresting() })
	for gi, g := range []string{"functions", "addresses"} {
		for _, f := range reportFormats {
			fl := map[string]string{"output": "out"}
			if f == "peek" {
				fl["peek"] = "."
			} else {
				fl[f] = "true"
			}
			pp.SetGranularity(fl, g)
			if gi == 1 {
				fl["trim"] = "false"
				fl["lines"], fl["addresses"] = "false", "true"
			}
			res := pp.Run(pp.Req{Flags: fl, Args: []string{"src"}, Sources: map[string]*pp.Source{"src": {Data: data}}})
			if res.Panic != "" {
				e.Addf("pprof -%s (%s) panicked on an accepted profile: %s", f, g, res.Panic)
			}
		}
	}
}

func classifyErr(err error) string {
	s := err.Error()
	switch {
	case strings.Contains(s, "unrecognized profile format"):
		return "rejected-unrecognised"
	case strings.Contains(s, "empty input"):
		return "rejected-empty"
	case strings.Contains(s, "decompressing"):
		return "rejected-gzip"
	}
	return "rejected-malformed"
}

func check(c *parseCase, o *vk.Obs) []string {
	var e vk.Errs
	data := c.Input()
	o.Label(fmt.Sprintf("base:%d", c.Base))
	o.LabelIf(c.Gzip > 0, "gzip")
	start := time.Now()
	var p *profile.Profile
	var err error
	if pan := vk.Safely(func() { p, err = profile.ParseData(data) }); pan != "" {
		return []string{fmt.Sprintf("ParseData panicked on %d bytes: %s", len(data), pan)}
	}
	if d := time.Since(start); d > 5*time.Second {
		o.Label("slow-parse")
	}
	// Parse (reader) must agree with ParseData
	var p2 *profile.Profile
	var err2 error
	if pan := vk.Safely(func() { p2, err2 = profile.Parse(bytes.NewReader(data)) }); pan != "" {
		return []string{"Parse panicked: " + pan}
	}
	if (err == nil) != (err2 == nil) {
		e.Addf("Parse and ParseData disagree: %v vs %v", err2, err)
	}
	_ = p2
	if err != nil {
		if p != nil {
			e.Addf("ParseData returned both a profile and an error")
		}
		l := classifyErr(err)
		o.Label(l)
		o.NonTrivial = l == "rejected-malformed" || l == "rejected-gzip"
		return e
	}
	o.Label("accepted")
	o.NonTrivial = true
	if p == nil {
		return []string{"ParseData returned neither a profile nor an error"}
	}
	if verr := model.Valid(p); verr != nil {
		e.Addf("accepted profile violates the validity contract: %v", verr)
		return e
	}
	if verr := p.CheckValid(); verr != nil {
		e.Addf("accepted profile fails its own CheckValid: %v", verr)
	}
	for _, s := range p.Sample {
		for k, u := range s.NumUnit {
			if len(u) != 0 && len(u) != len(s.NumLabel[k]) {
				e.Addf("accepted profile has %d units for %d numeric values of label %q", len(u), len(s.NumLabel[k]), k)
			}
		}
	}
	o.Label(kindOf(p, data))
	Survive(p, data, &e)
	return e
}

func kindOf(p *profile.Profile, data []byte) string {
	if _, err := profile.ParseUncompressed(ungz(data)); err == nil {
		return "accepted-proto"
	}
	return "accepted-legacy"
}

func ungz(b []byte) []byte {
	if len(b) >= 2 && b[0] == 0x1f && b[1] == 0x8b {
		if r, err := gzip.NewReader(bytes.NewReader(b)); err == nil {
			var out bytes.Buffer
			if _, err := out.ReadFrom(r); err == nil {
				return out.Bytes()
			}
		}
	}
	return b
}

func pretty(c *parseCase) any {
	d := c.Input()
	s := fmt.Sprintf("%q", d)
	if len(s) > 600 {
		s = s[:600] + "..."
	}
	src := ""
	if c.Base == 2 {
		loadCorpus()
		src = corpusNames[c.Corpus%len(corpusNames)]
	}
	return map[string]any{"base": c.Base, "corpus_file": src, "mutations": c.Muts, "gzip": c.Gzip, "input_len": len(d), "input": s}
}

var spec = vk.Spec[parseCase]{ID: "C02", Facet: "parse", Journal: true, Quick: 5000, Thorough: 40000, Gen: genCase, Check: check, Pretty: pretty, CaseTimeout: 60 * time.Second,
	Rule: "byte strings from six bases (real encoder output of generated profiles, the harness's independent profile.proto writer, every testdata file incl. all legacy formats plus hostile legacy constants, wire-format field soups with lying length prefixes, binary CPU word streams of both word sizes/endiannesses with hostile counts and depths, raw bytes) x up to 3 structure-aware mutations (truncate, bit flip, byte set, delete/duplicate range, insert varint, replace the k-th varint of the message tree by hostile/±1/top-bit values, self-concatenation, line delete/duplicate/swap, hostile numeric tokens) x gzip wrapping before or after mutation; oracle: no panic, Parse==ParseData verdict, validity predicate V, unit-list length, and the downstream battery (Write/Copy/Compact/Merge/String/RemoveUninteresting + 12 report formats x 2 granularities) without panic; non-trivial = accepted, or rejected after format sniffing succeeded"}

func TestPropParse(t *testing.T) { vk.Main(t, spec) }

// FuzzParse is the coverage-guided variant (thorough tier): same oracle, raw bytes in.
func FuzzParse(f *testing.F) {
	loadCorpus()
	for _, b := range corpus {
		if len(b) < 16<<10 {
			f.Add(b)
		}
	}
	for _, w := range [][]uint64{{0, 3, 0, 1, 0, 0, 0, 0, 1, 0}, {0, 3, 0, 1, 0, 1, 1, 5, 0, 1, 0}} {
		c := parseCase{Base: 4, Words: w, WordSz: 8}
		f.Add(c.Input())
		c.WordSz = 4
		f.Add(c.Input())
	}
	f.Add([]byte{0x0a, 0xff, 0xff, 0xff, 0xff, 0xff, 0xff, 0xff, 0xff, 0xff, 0x01})
	f.Fuzz(func(t *testing.T, data []byte) {
		if len(data) > 64<<10 {
			return
		}
		c := &parseCase{Base: 5, Raw: data}
		if msgs := check(c, &vk.Obs{}); len(msgs) > 0 {
			path := vk.FuzzReport(&spec, c, msgs)
			t.Fatalf("C02 violated (replay %s): %v", path, msgs)
		}
	})
}

var _ = sort.Strings

// genLegacyText assembles a document that resembles one of the legacy text formats: a header of the
// format, records built from number/address pools, optional attribute lines, and a memory-map section
// whose lines are built from hostile pools (odd ranges, permissions, file names).
func genLegacyText(t *rapid.T) string {
	num := func(l string) string {
		return rapid.SampledFrom([]string{"0", "1", "2", "7", "100", "524288", "4294967296", "9223372036854775807", "9223372036854775808", "18446744073709551615", "-1", "-9223372036854775808", "007", "0x10", "1e3", "", "x"}).Draw(t, l)
	}
	addr := func(l string) string {
		return rapid.SampledFrom([]string{"0x0", "0x1", "0x400100", "0x400fff", "0x401000", "0x7fffffffffff", "0xffffffffffffffff", "0x10000000000000000", "0xzz", "400100", "0x", "-0x1"}).Draw(t, l)
	}
	stack := func() string {
		n := rapid.IntRange(0, 4).Draw(t, "depth")
		var a []string
		for i := 0; i < n; i++ {
			a = append(a, addr("pc"))
		}
		return strings.Join(a, " ")
	}
	var b strings.Builder
	kind := rapid.IntRange(0, 6).Draw(t, "lkind")
	nrec := rapid.IntRange(0, 4).Draw(t, "nrec")
	switch kind {
	case 0, 1: // heap
		b.WriteString("heap profile: " + num("a") + ": " + num("b") + " [" + num("c") + ": " + num("d") + "] @ " +
			rapid.SampledFrom([]string{"heapprofile", "heap_v2/524288", "heap_v2/0", "heap_v2/-1", "heap/1", "growthz", "fragmentationz", "heap_v2/", "nosuch"}).Draw(t, "variant") + "\n")
		for i := 0; i < nrec; i++ {
			b.WriteString(num("a") + ": " + num("b") + " [" + num("c") + ": " + num("d") + "] @ " + stack() + "\n")
		}
	case 2: // go count
		b.WriteString(rapid.SampledFrom([]string{"goroutine", "threadcreate", "heap", "x"}).Draw(t, "cname") + " profile: total " + num("tot") + "\n")
		for i := 0; i < nrec; i++ {
			b.WriteString(num("n") + " @ " + stack() + "\n")
			if rapid.Bool().Draw(t, "sym") {
				b.WriteString("#\t0x400100\tmain.f+0x10\t/src/main.go:12\n")
			}
		}
	case 3: // contention
		b.WriteString(rapid.SampledFrom([]string{"--- contentionz 1 ---", "--- mutex:", "--- contention:", "--- contentionz"}).Draw(t, "chdr") + "\n")
		for _, k := range []string{"cycles/second", "sampling period", "ms since reset", "format", "resolution", "discarded samples", "bogus key"} {
			if rapid.IntRange(0, 2).Draw(t, "attr") == 0 {
				b.WriteString(k + rapid.SampledFrom([]string{" = ", "=", " =", ": "}).Draw(t, "eq") + num("v") + "\n")
			}
		}
		for i := 0; i < nrec; i++ {
			b.WriteString(num("cyc") + " " + num("cnt") + " @ " + stack() + "\n")
		}
	case 4: // threadz
		b.WriteString("--- threadz " + num("n") + " ---\n\n")
		for i := 0; i < nrec; i++ {
			b.WriteString("--- Thread " + rapid.SampledFrom([]string{"7f01", "0", "zz"}).Draw(t, "tid") + " (name: " + rapid.SampledFrom([]string{"main/1", "", "a(b)"}).Draw(t, "tname") + ") stack: ---\n")
			if rapid.IntRange(0, 3).Draw(t, "same") == 0 {
				b.WriteString("  ---- no stack trace for thread (12)\n")
			} else {
				for j := rapid.IntRange(0, 3).Draw(t, "frames"); j > 0; j-- {
					b.WriteString("  PC: " + addr("pc") + rapid.SampledFrom([]string{"", " func", ""}).Draw(t, "fn") + "\n")
				}
			}
		}
	case 5: // java
		b.WriteString(rapid.SampledFrom([]string{"--- heapz 1 ---", "--- contentionz 1 ---", "--- heapz " + num("r") + " ---"}).Draw(t, "jhdr") + "\n")
		for i := 0; i < nrec; i++ {
			b.WriteString(num("a") + ": " + num("b") + " [" + num("c") + ": " + num("d") + "] @ " + stack() + "\n")
		}
		if rapid.Bool().Draw(t, "jsym") {
			b.WriteString("\n 0x400100 com.x.A.f (A.java:12)\n 0x401000 noparens\n 0xzz bad (x:y)\n 0x1 g (B.java)\n")
		}
	default: // growth / free-form
		b.WriteString(rapid.SampledFrom([]string{"%", "% x\n", "heap profile:\n", "--- ", "\n\n"}).Draw(t, "free"))
	}
	switch rapid.IntRange(0, 3).Draw(t, "sentinel") {
	case 1:
		b.WriteString("\nMAPPED_LIBRARIES:\n")
	case 2:
		b.WriteString("\n--- Memory map: ---\n")
	case 3:
		b.WriteString("\n")
	}
	for i := rapid.IntRange(0, 4).Draw(t, "nmaps"); i > 0; i-- {
		rng := rapid.SampledFrom([]string{"00400000-00401000", "00401000-00400000", "00400000-00400000", "0-ffffffffffffffff", "ffffffffffffffff-0", "7f0000000000-7f0000001000", "zz-yy", "00400000", "-", "00400000-10000000000000000"}).Draw(t, "range")
		file := rapid.SampledFrom([]string{"/bin/app", "(deleted)", "/bin/app (deleted)", " (deleted)", "", "[vdso]", "[vsyscall]", "[", "//anon", "/lib/libc.so.6", "lib.so", ".so", "/dev/dri/card0", "a b c", "/bin/%s", "$build/x", "http://x/y"}).Draw(t, "mfile")
		if rapid.Bool().Draw(t, "briefmap") {
			b.WriteString(rng + ": " + file + "\n")
		} else {
			perm := rapid.SampledFrom([]string{"r-xp", "r-xp", "rw-p", "---p", "r-x", "rwxp", "xxxx", ""}).Draw(t, "perm")
			off := rapid.SampledFrom([]string{"00000000", "00001000", "ffffffffffffffff", "zz", ""}).Draw(t, "off")
			b.WriteString(rng + " " + perm + " " + off + " " + rapid.SampledFrom([]string{"00:00", "fd:01", "x"}).Draw(t, "dev") + " " + rapid.SampledFrom([]string{"0", "1234", "-1"}).Draw(t, "inode") + " " + file + "\n")
		}
	}
	if rapid.IntRange(0, 4).Draw(t, "buildline") == 0 {
		b.WriteString("build=" + rapid.SampledFrom([]string{"abc", "", "$x"}).Draw(t, "build") + "\n")
	}
	return b.String()
}
