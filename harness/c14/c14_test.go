package c14

import (
	"bytes"
	"encoding/binary"
	"fmt"
	"math"
	"strings"
	"testing"

	"github.com/google/pprof/profile"
	"github.com/google/pprof/xverif/model"
	"github.com/google/pprof/xverif/vk"
	"pgregory.net/rapid"
)

// Doc is the model of a well-formed legacy profile; Print renders it the way a real writer would.
type Rec struct {
	N1, N2, N3, N4 int64 // meaning depends on the format
	Addrs          []uint64
	SameAsPrev     bool // threadz
	CommentBefore  bool
	BlankBefore    bool
}

type MapEnt struct {
	Start, Limit, Offset uint64
	File, BuildID        string
	Brief                bool
	Perm                 string
}

type Doc struct {
	Kind     string
	Rate     int64 // heap sampling rate / cpu period (us) / contention sampling period
	HasRate  bool
	Hz       int64 // cycles/second
	MsReset  int64
	HasAlloc bool
	Recs     []Rec
	Maps     []MapEnt
	Sentinel int // 0 none, 1 MAPPED_LIBRARIES:, 2 --- Memory map: ---
	Tight    bool // regions one page apart
	Attrs    bool // the memory map defines two attributes (source=, build=) and the mapping lines refer to the first
	WordSz   int
	BigEnd   bool
	SharedPC uint64 // cpu: signal-handler frame inserted at index 1 of every sample (0 = none)
	DupLeaf  bool   // cpu: the leaf is duplicated at index 1
	JavaLocs bool   // java: emit the location table
	CountTyp string
}

var kinds = []string{"heap", "heap_v2", "heapz_v2", "heapprofile", "growthz", "fragmentationz", "count", "contentionz", "mutex", "contention", "threadz", "cpu", "javaheapz", "javacontentionz"}

func genDoc(t *rapid.T) *Doc {
	d := &Doc{Kind: rapid.SampledFrom(kinds).Draw(t, "kind")}
	// memory map: main binary first, non-adjacent, start-offset never 0x400000
	nm := rapid.IntRange(0, 3).Draw(t, "nmaps")
	base := uint64(0x10000000)
	files := []string{"/bin/app", "/lib/libc.so.6", "/lib/libm.so", "/opt/server"}
	if rapid.IntRange(0, 2).Draw(t, "libfirst") == 0 {
		// a shared library (or two) mapped below the main binary: listed first, as /proc/self/maps would
		files = []string{"/lib/libc.so.6", "/lib/libm.so", "/bin/app", "/opt/server"}
	}
	gap := uint64(0x100000)
	if nm > 1 && rapid.IntRange(0, 3).Draw(t, "tight") == 0 {
		// regions one page apart: the page(s) below a mapping with a file offset then belong to ANOTHER listed
		// region, which must win over the "first part of a split mapping is missing" work-around
		gap, d.Tight = 0x1000, true
	}
	for i := 0; i < nm; i++ {
		size := uint64(rapid.SampledFrom([]int{0x1000, 0x4000, 0x100000}).Draw(t, "msize"))
		m := MapEnt{Start: base, Limit: base + size, Offset: uint64(rapid.SampledFrom([]int{0, 0x1000, 0x2000}).Draw(t, "moff")), File: files[i],
			Brief: rapid.Bool().Draw(t, "brief"), Perm: rapid.SampledFrom([]string{"r-xp", "r-xp", "rwxp"}).Draw(t, "perm")}
		if m.Brief && rapid.Bool().Draw(t, "bid") {
			m.BuildID = rapid.SampledFrom([]string{"abc123", "deadbeef00"}).Draw(t, "buildid")
		}
		d.Maps = append(d.Maps, m)
		base += size + gap
	}
	if nm > 0 {
		d.Sentinel = rapid.IntRange(1, 2).Draw(t, "sentinel")
		d.Attrs = rapid.IntRange(0, 4).Draw(t, "mapattrs") == 0
	}
	covered := func(a uint64) bool {
		for _, m := range d.Maps {
			if m.Start <= a && a < m.Limit {
				return true
			}
		}
		return false
	}
	var addr0 func(label string) uint64
	addr := func(label string) uint64 {
		a := addr0(label)
		// an address in no region but within Offset bytes below a mapping is claimed (and the mapping is
		// rewritten) by the documented work-around: kept out of play, as in the lower-border rule below
		bad := func(x uint64) bool {
			for _, m := range d.Maps {
				if m.Offset != 0 && m.Start-m.Offset <= x && x < m.Start && !covered(x) {
					return true
				}
			}
			return false
		}
		if d.Tight && (bad(a) || bad(a-1)) {
			return d.Maps[0].Start + 2
		}
		return a
	}
	addr0 = func(label string) uint64 {
		// inside a mapping (not its first byte: call sites are moved back by one), or far below all of them
		if len(d.Maps) > 0 && rapid.IntRange(0, 4).Draw(t, label+"in") != 0 {
			m := d.Maps[rapid.IntRange(0, len(d.Maps)-1).Draw(t, label+"m")]
			if rapid.IntRange(0, 3).Draw(t, label+"edge") == 0 {
				// the borders of the mapping, before and after the call-site adjustment
				// (an address within Offset bytes below a mapping that has a non-zero offset is claimed by a
				// documented work-around for split mappings: the lower border is only drawn for offset 0)
				w := rapid.IntRange(0, 4).Draw(t, label+"which")
				if m.Offset != 0 && w < 2 {
					w += 2
				}
				return []uint64{m.Start, m.Start + 1, m.Limit - 1, m.Limit, m.Limit + 1}[w]
			}
			return m.Start + 2 + uint64(rapid.IntRange(0, 0xff0).Draw(t, label+"o"))
		}
		return uint64(rapid.IntRange(0x1000, 0x8000).Draw(t, label+"abs"))*2 + 2
	}
	pool := make([]uint64, 0, 6)
	for i := 0; i < 6; i++ {
		pool = append(pool, addr("pool"))
	}
	stack := func(min int) []uint64 {
		n := rapid.IntRange(min, 5).Draw(t, "depth")
		var s []uint64
		for i := 0; i < n; i++ {
			s = append(s, rapid.SampledFrom(pool).Draw(t, "pc"))
		}
		return s
	}
	nr := rapid.IntRange(0, 6).Draw(t, "nrecs")
	big := func(label string) int64 {
		return rapid.OneOf(rapid.Int64Range(0, 20), rapid.Int64Range(0, 1<<20), rapid.SampledFrom([]int64{1, 2, 524288, 1 << 31, 1 << 40})).Draw(t, label)
	}
	switch d.Kind {
	case "heap", "heap_v2", "heapz_v2", "heapprofile", "growthz", "fragmentationz":
		d.HasRate = d.Kind == "heap" || d.Kind == "heap_v2" || d.Kind == "heapz_v2"
		d.Rate = rapid.SampledFrom([]int64{1, 2, 1000, 524288, 1 << 20, 3}).Draw(t, "rate")
		d.HasAlloc = rapid.Bool().Draw(t, "hasalloc") && !strings.HasSuffix(d.Kind, "z") || (rapid.Bool().Draw(t, "hasalloc2") && d.Kind != "growthz" && d.Kind != "fragmentationz")
		if d.Kind == "growthz" || d.Kind == "fragmentationz" {
			d.HasAlloc = false
		}
		for i := 0; i < nr; i++ {
			r := Rec{Addrs: stack(1)}
			r.N1 = rapid.Int64Range(0, 50).Draw(t, "count")
			if r.N1 > 0 {
				r.N2 = r.N1 * rapid.Int64Range(1, 4096).Draw(t, "size")
				if rapid.Bool().Draw(t, "ragged") {
					r.N2 += rapid.Int64Range(0, r.N1-1+1).Draw(t, "rag") % r.N1
				}
			}
			if d.HasAlloc {
				r.N3 = r.N1 + rapid.Int64Range(0, 50).Draw(t, "acount")
				if r.N3 > 0 {
					r.N4 = r.N2 + r.N3*rapid.Int64Range(1, 100).Draw(t, "asize")
				}
			} else {
				r.N3, r.N4 = r.N1, r.N2 // writers that do not track allocations repeat the in-use numbers (or print 0)
				if rapid.Bool().Draw(t, "zeros") {
					r.N3, r.N4 = 0, 0
				}
			}
			d.Recs = append(d.Recs, r)
		}
	case "count":
		if d.Sentinel == 1 {
			d.Sentinel = 2 // Go count profiles end their record list at a "---" line
		}
		d.CountTyp = rapid.SampledFrom([]string{"goroutine", "threadcreate", "block"}).Draw(t, "ctype")
		for i := 0; i < nr; i++ {
			d.Recs = append(d.Recs, Rec{N1: big("n"), Addrs: stack(1)})
		}
	case "contentionz", "mutex", "contention":
		if d.Sentinel == 1 {
			d.Sentinel = 2 // these writers introduce the map with the "--- Memory map: ---" line
		}
		d.HasRate = rapid.Bool().Draw(t, "hasperiod")
		d.Rate = rapid.SampledFrom([]int64{1, 1, 5, 100}).Draw(t, "period")
		if rapid.Bool().Draw(t, "hashz") {
			d.Hz = rapid.SampledFrom([]int64{1000000000, 2000000000, 3000000000, 2500000000}).Draw(t, "hz")
		}
		d.MsReset = rapid.SampledFrom([]int64{0, 0, 1, 1000}).Draw(t, "ms")
		for i := 0; i < nr; i++ {
			d.Recs = append(d.Recs, Rec{N1: rapid.Int64Range(0, 1<<30).Draw(t, "delay"), N2: rapid.Int64Range(0, 1000).Draw(t, "count"), Addrs: stack(1)})
		}
	case "threadz":
		for i := 0; i < nr; i++ {
			r := Rec{Addrs: stack(1)}
			if i > 0 && rapid.IntRange(0, 3).Draw(t, "same") == 0 {
				r.SameAsPrev = true
			}
			// the leaf equal to the second frame is not generated (statement silent)
			if len(r.Addrs) > 1 && r.Addrs[1] == r.Addrs[0] {
				r.Addrs[1] = r.Addrs[0] + 16
			}
			d.Recs = append(d.Recs, r)
		}
	case "cpu":
		d.WordSz = rapid.SampledFrom([]int{4, 8}).Draw(t, "wordsz")
		d.BigEnd = rapid.Bool().Draw(t, "bigendian")
		d.Rate = rapid.SampledFrom([]int64{1, 10000, 100}).Draw(t, "period")
		mode := rapid.IntRange(0, 4).Draw(t, "cpumode")
		tiny := mode == 3
		leafOnly := mode == 4
		if tiny {
			// every word of the file below 128, big-endian, no memory map: each byte pair then reads as a
			// protobuf "field 0, one-byte varint" and the whole file is also a (meaningless) protobuf message
			mode = 0
			d.BigEnd, d.Maps, d.Sentinel = true, nil, 0
			d.Rate = rapid.SampledFrom([]int64{1, 100, 127}).Draw(t, "tinyperiod")
			for i := range pool {
				pool[i] = uint64(4 + 2*rapid.IntRange(0, 20).Draw(t, "tinypc"))
			}
		}
		if mode == 1 {
			d.SharedPC = 0x7000 // distinct from every pool address
		}
		d.DupLeaf = mode == 2
		if d.WordSz == 4 {
			for i := range pool {
				pool[i] &= 0xffffffff
			}
		}
		if nr < 2 {
			nr = 2
		}
		for i := 0; i < nr; i++ {
			r := Rec{N1: rapid.OneOf(rapid.Int64Range(1, 1000), rapid.SampledFrom([]int64{127, 128, 129, 255, 256, 0x8000, 0x80000000, 1 << 20})).Draw(t, "count"), Addrs: stack(2)}
			if tiny {
				r.N1 = r.N1%127 + 1
			}
			if r.Addrs[1] == r.Addrs[0] {
				r.Addrs[1] += 16 // a second frame equal to the leaf is the duplicated-leaf artefact (generated separately)
			}
			d.Recs = append(d.Recs, r)
		}
		if leafOnly {
			// several one-address records, and every deeper record goes through one call site: the second frame
			// is shared by all records that have one, but by no means by "nearly all samples" - it stays
			nl := rapid.IntRange(1, 3).Draw(t, "nleafonly")
			d.Recs = append(d.Recs, d.Recs[0], d.Recs[1])
			for i := range d.Recs {
				r := &d.Recs[i]
				r.Addrs = append([]uint64{}, r.Addrs...)
				if i < nl {
					r.Addrs = r.Addrs[:1]
				} else {
					r.Addrs[1] = 0x6000
				}
			}
		}
		// the "second frame shared by (nearly) all samples" heuristic must not be in play by accident
		same := !leafOnly
		for _, r := range d.Recs {
			if !leafOnly && r.Addrs[1] != d.Recs[0].Addrs[1] {
				same = false
			}
		}
		if same {
			last := &d.Recs[len(d.Recs)-1]
			last.Addrs[1] += 32
			if last.Addrs[1] == last.Addrs[0] {
				last.Addrs[1] += 32
			}
		}
	case "javaheapz", "javacontentionz":
		d.Rate = rapid.SampledFrom([]int64{0, 1, 100}).Draw(t, "period")
		d.MsReset = rapid.SampledFrom([]int64{0, 1, 1000}).Draw(t, "ms")
		d.JavaLocs = rapid.Bool().Draw(t, "javalocs")
		d.Sentinel, d.Maps = 0, nil
		for i := 0; i < nr; i++ {
			r := Rec{Addrs: stack(1)}
			r.N2 = rapid.Int64Range(1, 50).Draw(t, "count")
			r.N1 = r.N2 * rapid.Int64Range(1, 1<<20).Draw(t, "size")
			d.Recs = append(d.Recs, r)
		}
	}
	for i := range d.Recs {
		d.Recs[i].CommentBefore = rapid.IntRange(0, 5).Draw(t, "comment") == 0
		d.Recs[i].BlankBefore = rapid.IntRange(0, 5).Draw(t, "blank") == 0
	}
	return d
}

// fileOf: the file name a mapping must end up with ($source expanded)
func (d *Doc) fileOf(m *MapEnt) string {
	if d.Attrs {
		return "/home/user" + m.File
	}
	return m.File
}

func hexList(a []uint64) string {
	var s []string
	for _, x := range a {
		s = append(s, fmt.Sprintf("0x%x", x))
	}
	return strings.Join(s, " ")
}

// cpuAddrs are the raw words of a binary CPU sample (with the shared frame / duplicated leaf inserted).
func (d *Doc) cpuAddrs(r Rec) []uint64 {
	a := append([]uint64{}, r.Addrs...)
	if d.SharedPC != 0 {
		a = append([]uint64{a[0], d.SharedPC}, a[1:]...)
	}
	if d.DupLeaf {
		a = append([]uint64{a[0], a[0]}, a[1:]...)
	}
	return a
}

func javaLocName(a uint64) (fn, file string, line int64) {
	return fmt.Sprintf("com.example.C%d.run", a%7), fmt.Sprintf("C%d.java", a%7), int64(a%50) + 1
}

// Print renders the document.
func (d *Doc) Print() []byte {
	var b bytes.Buffer
	pre := func(r Rec, comments bool) {
		if r.BlankBefore {
			b.WriteString("\n")
		}
		if r.CommentBefore && comments {
			b.WriteString("# a comment\n")
		}
	}
	switch d.Kind {
	case "heap", "heap_v2", "heapz_v2", "heapprofile", "growthz", "fragmentationz":
		var tc, ts, tac, tas int64
		for _, r := range d.Recs {
			tc += r.N1
			ts += r.N2
			tac += r.N3
			tas += r.N4
		}
		if d.HasAlloc && (tac == tc || tac == 0) && (tas == ts || tas == 0) {
			tac, tas = tc+1, ts+1 // the header totals announce allocation data
		}
		if !d.HasAlloc {
			tac, tas = tc, ts
		}
		suffix := d.Kind
		if d.HasRate {
			suffix += fmt.Sprintf("/%d", d.Rate)
		}
		fmt.Fprintf(&b, "heap profile: %d: %d [%d: %d] @ %s\n", tc, ts, tac, tas, suffix)
		for _, r := range d.Recs {
			pre(r, true)
			fmt.Fprintf(&b, "%d: %d [%d: %d] @ %s\n", r.N1, r.N2, r.N3, r.N4, hexList(r.Addrs))
		}
	case "count":
		var tot int64
		for _, r := range d.Recs {
			tot += r.N1
		}
		fmt.Fprintf(&b, "%s profile: total %d\n", d.CountTyp, tot)
		for _, r := range d.Recs {
			pre(r, true)
			fmt.Fprintf(&b, "%d @ %s\n", r.N1, hexList(r.Addrs))
		}
	case "contentionz", "mutex", "contention":
		switch d.Kind {
		case "contentionz":
			b.WriteString("--- contentionz 1 ---\n")
		case "mutex":
			b.WriteString("--- mutex:\n")
		default:
			b.WriteString("--- contention:\n")
		}
		if d.Hz > 0 {
			fmt.Fprintf(&b, "cycles/second=%d\n", d.Hz)
		}
		if d.HasRate {
			fmt.Fprintf(&b, "sampling period=%d\n", d.Rate)
		}
		if d.MsReset > 0 {
			fmt.Fprintf(&b, "ms since reset = %d\n", d.MsReset)
		}
		for _, r := range d.Recs {
			pre(r, true)
			fmt.Fprintf(&b, "%d %d @ %s\n", r.N1, r.N2, hexList(r.Addrs))
		}
	case "threadz":
		b.WriteString("--- threadz 1 ---\n\n")
		for i, r := range d.Recs {
			fmt.Fprintf(&b, "--- Thread %x (name: worker/%d) stack: ---\n", 0x7f0000000000+i*0x1000, 100+i)
			if r.SameAsPrev {
				b.WriteString("  (same as previous thread)\n")
				continue
			}
			for j, a := range r.Addrs {
				if j%2 == 0 {
					fmt.Fprintf(&b, "  0x%x", a)
				} else {
					fmt.Fprintf(&b, " 0x%x\n", a)
				}
			}
			if len(r.Addrs)%2 == 1 {
				b.WriteString("\n")
			}
		}
		b.WriteString("---- no stack trace for 3 threads ----\n")
	case "cpu":
		var words []uint64
		words = append(words, 0, 3, 0, uint64(d.Rate), 0)
		for _, r := range d.Recs {
			a := d.cpuAddrs(r)
			words = append(words, uint64(r.N1), uint64(len(a)))
			words = append(words, a...)
		}
		words = append(words, 0, 1, 0)
		for _, w := range words {
			switch {
			case d.WordSz == 4 && d.BigEnd:
				b.Write(binary.BigEndian.AppendUint32(nil, uint32(w)))
			case d.WordSz == 4:
				b.Write(binary.LittleEndian.AppendUint32(nil, uint32(w)))
			case d.BigEnd:
				b.Write(binary.BigEndian.AppendUint64(nil, w))
			default:
				b.Write(binary.LittleEndian.AppendUint64(nil, w))
			}
		}
	case "javaheapz", "javacontentionz":
		if d.Kind == "javaheapz" {
			b.WriteString("--- heapz 1 ---\nformat = java\nresolution=bytes\n")
		} else {
			b.WriteString("--- contentionz 1 ---\nformat = java\nresolution = microseconds\n")
			if d.Rate > 0 {
				fmt.Fprintf(&b, "sampling period = %d\n", d.Rate)
			}
			if d.MsReset > 0 {
				fmt.Fprintf(&b, "ms since reset = %d\n", d.MsReset)
			}
		}
		for _, r := range d.Recs {
			if r.BlankBefore {
				b.WriteString("\n")
			}
			fmt.Fprintf(&b, " %d %d @ %s\n", r.N1, r.N2, hexList(r.Addrs))
		}
		b.WriteString("\n")
		if d.JavaLocs {
			seen := map[uint64]bool{}
			for _, r := range d.Recs {
				for _, a := range r.Addrs {
					if !seen[a] {
						seen[a] = true
						fn, file, line := javaLocName(a)
						fmt.Fprintf(&b, "  0x%x %s (%s:%d)\n", a, fn, file, line)
					}
				}
			}
		}
	}
	switch d.Sentinel {
	case 1:
		b.WriteString("\nMAPPED_LIBRARIES:\n")
	case 2:
		b.WriteString("\n--- Memory map: ---\n")
	}
	if d.Sentinel != 0 {
		if d.Attrs {
			// attribute definitions: later lines may use $source and $build
			b.WriteString("source=/home/user\nbuild=0123abcd\n")
		}
		for i, m := range d.Maps {
			if d.Attrs {
				m.File = "$source" + m.File
			}
			if m.Brief {
				fmt.Fprintf(&b, "0x%x-0x%x %s", m.Start, m.Limit, m.File)
				if m.Offset != 0 || m.BuildID != "" {
					fmt.Fprintf(&b, " (@%x)", m.Offset)
				}
				if m.BuildID != "" {
					fmt.Fprintf(&b, " %s", m.BuildID)
				}
				b.WriteString("\n")
			} else {
				fmt.Fprintf(&b, "%08x-%08x %s %08x 08:01 %d %s\n", m.Start, m.Limit, m.Perm, m.Offset, 1000+i, m.File)
			}
			// a non-executable segment of the same file in between: must be ignored
			if !m.Brief && i == 0 && !d.Tight {
				fmt.Fprintf(&b, "%08x-%08x rw-p %08x 08:01 %d %s\n", m.Limit+0x1000, m.Limit+0x2000, m.Offset+0x1000, 1000+i, m.File)
			}
		}
	}
	return b.Bytes()
}

// ---- expectation, written from the property statement ----

type expSample struct {
	Values []int64
	Addrs  []uint64 // leaf first, after call-site adjustment
	Frames []string // java: function names
	Bytes  int64
	HasB   bool
	Tol    bool // unsampled values: +-1
}

type expected struct {
	Types      []profile.ValueType
	PeriodType profile.ValueType
	Period     int64
	Duration   int64
	Samples    []expSample
}

func unsample(count, size, rate int64) (int64, int64) {
	if count == 0 || size == 0 {
		return 0, 0
	}
	if rate <= 1 {
		return count, size
	}
	avg := float64(size) / float64(count)
	scale := 1 / (1 - math.Exp(-avg/float64(rate)))
	return int64(float64(count) * scale), int64(float64(size) * scale)
}

func adjust(a []uint64, leafToo bool) []uint64 {
	out := append([]uint64{}, a...)
	for i := range out {
		if i > 0 || leafToo {
			out[i]--
		}
	}
	return out
}

func (d *Doc) Expect() expected {
	var e expected
	vt := func(t, u string) profile.ValueType { return profile.ValueType{Type: t, Unit: u} }
	switch d.Kind {
	case "heap", "heap_v2", "heapz_v2", "heapprofile", "growthz", "fragmentationz":
		e.PeriodType = vt("space", "bytes")
		rate := int64(1)
		sampled := false
		switch d.Kind {
		case "heap_v2", "heapz_v2":
			rate, sampled = d.Rate, true
		case "heap":
			rate, sampled = d.Rate/2, true
		}
		e.Period = rate
		if d.HasAlloc {
			e.Types = []profile.ValueType{vt("alloc_objects", "count"), vt("alloc_space", "bytes"), vt("inuse_objects", "count"), vt("inuse_space", "bytes")}
		} else {
			e.Types = []profile.ValueType{vt("objects", "count"), vt("space", "bytes")}
		}
		for _, r := range d.Recs {
			s := expSample{Addrs: adjust(r.Addrs, true), HasB: true, Tol: sampled}
			us := func(c, sz int64) (int64, int64) {
				if sampled {
					return unsample(c, sz, rate)
				}
				return c, sz
			}
			if d.HasAlloc {
				c, sz := us(r.N3, r.N4)
				s.Values = append(s.Values, c, sz)
				if r.N3 != 0 {
					s.Bytes = r.N4 / r.N3
				}
			}
			c, sz := us(r.N1, r.N2)
			s.Values = append(s.Values, c, sz)
			if r.N1 != 0 {
				s.Bytes = r.N2 / r.N1
			}
			e.Samples = append(e.Samples, s)
		}
	case "count":
		e.Types = []profile.ValueType{vt(d.CountTyp, "count")}
		e.PeriodType, e.Period = vt(d.CountTyp, "count"), 1
		for _, r := range d.Recs {
			e.Samples = append(e.Samples, expSample{Values: []int64{r.N1}, Addrs: adjust(r.Addrs, true)})
		}
	case "contentionz", "mutex", "contention":
		e.Types = []profile.ValueType{vt("contentions", "count"), vt("delay", "nanoseconds")}
		e.PeriodType, e.Period = vt("contentions", "count"), 1
		if d.HasRate {
			e.Period = d.Rate
		}
		e.Duration = d.MsReset * 1000 * 1000
		for _, r := range d.Recs {
			delay, count := r.N1, r.N2
			tol := false
			if d.Hz > 0 {
				delay = int64(float64(delay) * float64(e.Period) / (float64(d.Hz) / 1e9))
				tol = true
			}
			count *= e.Period
			e.Samples = append(e.Samples, expSample{Values: []int64{count, delay}, Addrs: adjust(r.Addrs, true), Tol: tol})
		}
	case "threadz":
		e.Types = []profile.ValueType{vt("thread", "count")}
		e.PeriodType, e.Period = vt("thread", "count"), 1
		for _, r := range d.Recs {
			if r.SameAsPrev {
				if n := len(e.Samples); n > 0 {
					e.Samples[n-1].Values[0]++
				}
				continue
			}
			e.Samples = append(e.Samples, expSample{Values: []int64{1}, Addrs: adjust(r.Addrs, false)})
		}
	case "cpu":
		e.Types = []profile.ValueType{vt("samples", "count"), vt("cpu", "nanoseconds")}
		e.PeriodType, e.Period = vt("cpu", "nanoseconds"), d.Rate*1000
		for _, r := range d.Recs {
			// the shared signal-handler frame and the duplicated leaf are removed: what remains is the real stack
			e.Samples = append(e.Samples, expSample{Values: []int64{r.N1, r.N1 * d.Rate * 1000}, Addrs: adjust(r.Addrs, false)})
		}
	case "javaheapz":
		e.Types = []profile.ValueType{vt("inuse_objects", "count"), vt("inuse_space", "bytes")}
		for _, r := range d.Recs {
			c, sz := unsample(r.N2, r.N1, 524288)
			s := expSample{Values: []int64{c, sz}, HasB: true, Bytes: r.N1 / r.N2, Tol: true}
			d.javaFrames(&s, r)
			e.Samples = append(e.Samples, s)
		}
	case "javacontentionz":
		e.Types = []profile.ValueType{vt("contentions", "count"), vt("delay", "microseconds")}
		e.Duration = d.MsReset * 1000 * 1000
		if d.Rate > 0 {
			e.PeriodType, e.Period = vt("contentions", "count"), d.Rate
		}
		for _, r := range d.Recs {
			p := d.Rate
			if p == 0 {
				p = 1
			}
			s := expSample{Values: []int64{r.N2 * p, r.N1 * p}}
			d.javaFrames(&s, r)
			e.Samples = append(e.Samples, s)
		}
	}
	return e
}

func (d *Doc) javaFrames(s *expSample, r Rec) {
	for _, a := range r.Addrs {
		if d.JavaLocs {
			fn, file, line := javaLocName(a)
			s.Frames = append(s.Frames, fmt.Sprintf("%s %s:%d", fn, file, line))
		} else {
			s.Frames = append(s.Frames, "?")
		}
	}
}

func near(a, b int64, tol bool) bool {
	if a == b {
		return true
	}
	if !tol {
		return false
	}
	d := a - b
	if d < 0 {
		d = -d
	}
	lim := int64(1)
	if m := int64(math.Abs(float64(a)) * 1e-12); m > lim {
		lim = m
	}
	return d <= lim
}

func check(d *Doc, o *vk.Obs) []string {
	var e vk.Errs
	data := d.Print()
	o.Label("kind:" + d.Kind)
	o.LabelIf(d.Sentinel != 0, "memory-map")
	o.LabelIf(d.Sentinel != 0 && d.Tight, "memory-map-tight")
	o.LabelIf(d.Sentinel != 0 && d.Attrs, "memory-map-attributes")
	if d.Kind == "cpu" && d.BigEnd && len(d.Maps) == 0 {
		small := true
		for _, b := range d.Print() {
			small = small && b < 128
		}
		o.LabelIf(small, "cpu-also-protobuf")
	}
	shared := false
	seen := map[uint64]int{}
	for i, r := range d.Recs {
		for _, a := range r.Addrs {
			if j, ok := seen[a]; ok && j != i {
				shared = true
			}
			seen[a] = i
		}
	}
	o.LabelIf(shared, "shared-address")
	o.NonTrivial = len(d.Recs) >= 2 && shared
	var p *profile.Profile
	var err error
	if pan := vk.Safely(func() { p, err = profile.ParseData(data) }); pan != "" {
		return []string{"ParseData panicked: " + pan}
	}
	if err != nil {
		e.Addf("well-formed %s profile rejected: %v\n%s", d.Kind, err, clip(data))
		return e
	}
	want := d.Expect()
	if verr := model.Valid(p); verr != nil {
		e.Addf("parsed profile invalid: %v", verr)
		return e
	}
	if len(p.SampleType) != len(want.Types) {
		e.Addf("%s: %d sample types, want %v", d.Kind, len(p.SampleType), want.Types)
		return e
	}
	for i, st := range p.SampleType {
		if st.Type != want.Types[i].Type || st.Unit != want.Types[i].Unit {
			e.Addf("%s: sample type %d is %s/%s, want %s/%s", d.Kind, i, st.Type, st.Unit, want.Types[i].Type, want.Types[i].Unit)
		}
	}
	if p.PeriodType == nil || p.PeriodType.Type != want.PeriodType.Type || p.PeriodType.Unit != want.PeriodType.Unit || p.Period != want.Period {
		e.Addf("%s: period %v %d, want %v %d", d.Kind, p.PeriodType, p.Period, want.PeriodType, want.Period)
	}
	if p.DurationNanos != want.Duration {
		e.Addf("%s: duration %d, want %d", d.Kind, p.DurationNanos, want.Duration)
	}
	if p.DropFrames == "" {
		e.Addf("%s: no built-in drop_frames expression attached", d.Kind)
	}
	if len(p.Sample) != len(want.Samples) {
		e.Addf("%s: %d samples for %d records\n%s", d.Kind, len(p.Sample), len(want.Samples), clip(data))
		return e
	}
	// an address in no listed region but within Offset bytes below a mapping with a file offset is claimed by the
	// documented split-mapping work-around, which also rewrites that mapping: such cases (the generator avoids
	// them, the +16/+32 de-duplication of cpu frames can still produce one) are not judged on mappings
	workaround := false
	for _, sm := range p.Sample {
		for _, l := range sm.Location {
			in := false
			for _, m := range d.Maps {
				in = in || (m.Start <= l.Address && l.Address < m.Limit)
			}
			for _, m := range d.Maps {
				if !in && m.Offset != 0 && m.Start-m.Offset <= l.Address && l.Address < m.Start {
					workaround = true
				}
			}
		}
	}
	o.LabelIf(workaround, "split-mapping-workaround-in-play")
	for i, s := range p.Sample {
		w := want.Samples[i]
		if len(s.Value) != len(w.Values) {
			e.Addf("sample %d: %d values", i, len(s.Value))
			continue
		}
		for j := range w.Values {
			if !near(s.Value[j], w.Values[j], w.Tol) {
				e.Addf("%s sample %d: values %v, the format prescribes %v\n%s", d.Kind, i, s.Value, w.Values, clip(data))
				break
			}
		}
		if w.HasB {
			if b := s.NumLabel["bytes"]; len(b) != 1 || b[0] != w.Bytes {
				e.Addf("%s sample %d: block-size label %v, want [%d]", d.Kind, i, b, w.Bytes)
			}
		}
		if w.Frames != nil {
			var got []string
			for _, l := range s.Location {
				if len(l.Line) == 0 {
					got = append(got, "?")
					continue
				}
				ln := l.Line[0]
				got = append(got, fmt.Sprintf("%s %s:%d", ln.Function.Name, ln.Function.Filename, ln.Line))
			}
			if strings.Join(got, "|") != strings.Join(w.Frames, "|") {
				e.Addf("%s sample %d: frames %v, want %v", d.Kind, i, got, w.Frames)
			}
			continue
		}
		var got []uint64
		for _, l := range s.Location {
			got = append(got, l.Address)
		}
		if fmt.Sprint(got) != fmt.Sprint(w.Addrs) {
			e.Addf("%s sample %d: stack %x, want %x (leaf first)\n%s", d.Kind, i, got, w.Addrs, clip(data))
		}
		// mappings from the trailing memory map
		for _, l := range s.Location {
			if workaround {
				break
			}
			var wm *MapEnt
			for k := range d.Maps {
				if d.Sentinel != 0 && d.Maps[k].Start <= l.Address && l.Address < d.Maps[k].Limit {
					wm = &d.Maps[k]
				}
			}
			switch {
			case wm != nil && (l.Mapping == nil || l.Mapping.Start != wm.Start || l.Mapping.Limit != wm.Limit || l.Mapping.Offset != wm.Offset || l.Mapping.File != d.fileOf(wm) || l.Mapping.BuildID != wm.BuildID):
				e.Addf("%s: address %x lies in %s [%x,%x) offset %x build id %q but got mapping %+v", d.Kind, l.Address, wm.File, wm.Start, wm.Limit, wm.Offset, wm.BuildID, l.Mapping)
			case wm == nil && l.Mapping != nil && l.Mapping.File != "":
				e.Addf("%s: address %x lies in no listed mapping but got %q", d.Kind, l.Address, l.Mapping.File)
			}
		}
	}
	// anything the parser returns round-trips (C01 clause on legacy inputs)
	var b1, b2 bytes.Buffer
	p.WriteUncompressed(&b1)
	if p2, err := profile.ParseData(b1.Bytes()); err != nil {
		e.Addf("%s: converted profile does not re-parse: %v", d.Kind, err)
	} else {
		p2.WriteUncompressed(&b2)
		if !bytes.Equal(b1.Bytes(), b2.Bytes()) {
			// a zero-count heap record carries bytes:[0], which the proto cannot represent: allowed once
			var b3 bytes.Buffer
			if p3, err := profile.ParseData(b2.Bytes()); err == nil {
				p3.WriteUncompressed(&b3)
			}
			if model.Snap(p, model.SnapOpts{Norm: true}) == model.Snap(p, model.SnapOpts{}) || !bytes.Equal(b2.Bytes(), b3.Bytes()) {
				e.Addf("%s: converted profile does not re-serialise identically", d.Kind)
			}
		}
		if model.Snap(p2, model.SnapOpts{}) != model.Snap(p, model.SnapOpts{Norm: true}) {
			e.Addf("%s: converted profile changes on write-then-parse", d.Kind)
		}
	}
	return e
}

func clip(b []byte) string {
	s := fmt.Sprintf("%q", b)
	if len(s) > 700 {
		s = s[:700] + "..."
	}
	return "   input: " + s
}

func TestPropLegacy(t *testing.T) {
	vk.Main(t, vk.Spec[Doc]{ID: "C14", Facet: "legacy", Quick: 20000, Thorough: 80000, Gen: genDoc, Check: check,
		Pretty: func(d *Doc) any { return map[string]any{"kind": d.Kind, "doc": d, "text": clip(d.Print())} },
		Rule:   "a model of each legacy format (heap, heap_v2, heapz_v2, heapprofile, growthz, fragmentationz with and without allocation columns; Go count; contentionz/mutex/contention with optional cycles/second, sampling period, ms since reset; threadz incl. 'same as previous thread'; binary CPU in 32/64 bit x little/big endian with an optional shared signal-handler frame or duplicated leaf; Java heapz/contentionz with location table) is printed the way a real writer would (comment and blank lines, /proc/maps or brief memory map with non-executable entries) and parsed; oracle: one sample per record in order, addresses with the documented call-site adjustment, values raw / x period / unsampled by 1/(1-exp(-size/rate)) computed independently (+-1), block-size label, types, units, period, duration, mappings by containment, built-in drop_frames, and write/parse round trip; non-trivial = >=2 records sharing an address"})
}
