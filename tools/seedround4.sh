#!/bin/bash
# Prepares round 4 of independent seeded changes: worktree /tmp/seed4/<id> at /repo HEAD and prompt in /tmp/seedout4/<id>/.
set -u
for i in $(seq -w 1 20); do
  ID=C$i
  mkdir -p /tmp/seedout4/$ID
  git -C /repo worktree add --detach /tmp/seed4/$ID >/dev/null 2>&1
  cp /tmp/seedout/$ID/property.txt /tmp/seedout4/$ID/property.txt
  sed -e "s#/tmp/seedout/#/tmp/seedout4/#g" -e "s#/tmp/seed/#/tmp/seed4/#g" \
      -e 's/For each change k (1, 2)/For each change k (7, 8)/' -e 's/patch2 must not depend on patch1/patch8 must not depend on patch7/' \
      -e 's/^Deliver TWO independent changes if you can (at least one), each using a DIFFERENT mechanism \/ code site,/Deliver TWO independent changes if you can (at least one), numbered 7 and 8, each using a DIFFERENT mechanism \/ code site and aimed at a DIFFERENT clause of the statement (read every sentence and every item of an enumeration in the statement and in the "quantified over" text as a separate clause). Other reviewers have already tried the most obvious edits at the anchored code sites; several rounds of reviewers have already tried edits at the anchored code sites, their direct callers and helpers, error paths and process-wide caches. Look elsewhere: interactions between two options or two features that are each fine alone, a clause of the statement that is only observable through one particular output form or entry point, a second code path that duplicates logic of the anchored one (web UI vs command line vs interactive vs public API), rarely used input variants the statement still covers, and arithmetic at the edges of the value ranges named in the quantifier. Never use git stash (the stash is shared between worktrees); to toggle your change use "git diff > file; git checkout -- .; git apply file".,/' \
      /tmp/seedout/$ID/prompt.txt > /tmp/seedout4/$ID/prompt.txt
done
git -C /repo worktree list | wc -l
