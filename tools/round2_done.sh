#!/bin/bash
# usage: tools/round2_done.sh <Cxx>   -- confirm the round-2 changes of one property, run the check against them, drop the agent's worktree
export GOFLAGS=-mod=mod GOPROXY=off GOSUMDB=off GOTOOLCHAIN=local
ID=$1
git -C /repo worktree remove --force ${SD:-/tmp/seed2}/$ID >/dev/null 2>&1
for K in ${KS:-3 4}; do
  [ -f ${SO:-/tmp/seedout2}/$ID/patch$K.diff ] || { echo "$ID-$K: not delivered"; continue; }
  SEEDOUT=${SO:-/tmp/seedout2} /verif/tools/verify_seed.sh $ID $K 2>&1 | tail -2
  [ -d /verif/seeded/$ID-$K ] && /verif/tools/seedtest $ID-$K quick 2>&1 | head -3
done
