#!/usr/bin/env python3
# usage: tools/mkprompt.py <Cxx> <k1> <k2> <seed-dir> <out-dir>   -- writes <out-dir>/prompt.txt and property.txt for a sub-agent
# (the agent gets only the text of the property and its own scratch worktree; nothing from /verif)
import json, sys
pid, k1, k2, sd, od = sys.argv[1:6]
p = next(json.loads(l) for l in open('/verif/properties.jsonl') if json.loads(l)['id'] == pid)
a = p['anchors']
prop = f"""{pid}: {p['title']}

Statement: {p['statement']}

Quantified over: {p['quantifier']['text']}

Why the existing tests cannot settle it: {p['why_tests_cant']}

Anchored in files: {', '.join(a['files'])}
Mechanisms meant to make it hold: {json.dumps(a['mechanism'])}
Observable at: {a['observe_at']}
"""
open(f'{od}/property.txt', 'w').write(prop)
steer = ("Other reviewers have already tried the most obvious edits at the anchored code sites; seven rounds of reviewers have already tried edits at the anchored code sites, their direct callers and helpers, error paths, "
         "process-wide caches, boundary sizes, rarely used formats, output values and documented behaviours. Look elsewhere again, and this time prefer (i) a change that only matters for the SECOND of two similar things "
         "(second profile, second request, second sample type, second label value, second mapping, second call of the same function on one object), or (ii) a loop bound / slice index / comparison that is only wrong when a "
         "collection has exactly one or exactly two elements, or (iii) an error path that silently produces plausible output instead of the error. Never use git stash (the stash is shared between worktrees); to toggle your "
         "change use \"git diff > file; git checkout -- .; git apply file\".")
prompt = f"""You are helping evaluate a verification framework for the Go project google/pprof (profile parser / merger / report generator). Your job: act as a careful adversary and produce realistic, subtle code changes ("seeded defects") that BREAK one stated semantic property of pprof while the code still compiles and the project's existing test suite still passes.

The property (read it carefully; full text is in {od}/property.txt):

{prop}

Your scratch git worktree of the repository is {sd} (a detached worktree; work ONLY there and in {od}; never touch /repo or /verif, do not read /verif). Every shell call must start with:
  export GOFLAGS=-mod=mod GOPROXY=off GOSUMDB=off GOTOOLCHAIN=local
There is no network. The existing test suite is run with:  cd {sd} && go test -vet=off -count=1 ./...   (takes a few seconds; all packages must pass - note {sd}/browsertests is a separate module, ignore it).

Deliver TWO independent changes if you can (at least one), numbered {k1} and {k2}, each using a DIFFERENT mechanism / code site and aimed at a DIFFERENT clause of the statement (read every sentence and every item of an enumeration in the statement and in the "quantified over" text as a separate clause). {steer} Each change is a small edit (1-15 lines) to non-test .go source files of pprof such that:
 1. the tree compiles and `go test -vet=off -count=1 ./...` still passes entirely with the change (run it and confirm);
 2. the property above is genuinely violated with the change, and holds (for your demonstration input) without it;
 3. the violation needs something SPECIFIC to manifest - an unusual input shape, a particular multi-step sequence of operations, a particular interleaving or fault at a particular point, a boundary value, or two cooperating sites that each look fine alone - NOT something that ordinary use or any trivial smoke test would expose at once. Think "bug a reviewer could plausibly let through".
 4. do not edit or delete existing tests, do not add build tags, do not make the change depend on env vars / time / randomness tricks.

For each change k ({k1}, {k2}) write into {od}/:
  - patch<k>.diff : `git diff` of ONLY the source change, relative to the clean worktree HEAD, applying cleanly with `git apply` to a clean tree by itself (patch{k2} must not depend on patch{k1});
  - demo<k>_test.go : a self-contained Go test file (state in a header comment which package directory it must be copied into, e.g. `// copy to: profile/`), using only the standard library and pprof packages, that FAILS with the change applied and PASSES on the clean tree. Name the test function TestSeedDemo<k>.
  - meta<k>.json : {{"property":"{pid}","summary":"one-paragraph description of the change","needs":"what specific input/sequence/schedule it needs to manifest","files":[...],"demo_pkg_dir":"...","commands_run":["..."],"suite_passes_with_change":true,"demo_fails_with_change":true,"demo_passes_without_change":true}}
Verify all of that yourself (apply patch to clean tree, run the suite, run the demo with and without). At the end leave the worktree clean (`git checkout -- . && git clean -fd`).

Your final message: a short summary of each change (file, what, why it breaks the property, what it needs to manifest) and confirmation of what you ran.
"""
open(f'{od}/prompt.txt', 'w').write(prompt)
