#!/bin/bash
# usage: verify_seed.sh <Cxx> <k>   -- confirms a sub-agent's seeded change in a scratch worktree:
#  (1) patch applies to a clean tree and compiles, (2) existing suite passes with it,
#  (3) the demonstration fails with it, (4) the demonstration passes without it.
# On success installs /verif/seeded/<Cxx>-<k>/{patch.diff,demo_test.go,meta.json}
set -u
export GOFLAGS=-mod=mod GOPROXY=off GOSUMDB=off GOTOOLCHAIN=local
ID=$1; K=$2
SRC=${SEEDOUT:-/tmp/seedout}/$ID
WT=/tmp/vseed-$ID-$K
[ -f $SRC/patch$K.diff ] || { echo "$ID-$K: no patch"; exit 3; }
git -C /repo worktree add --detach $WT >/dev/null 2>&1 || { echo "worktree failed"; exit 3; }
trap 'git -C /repo worktree remove --force $WT >/dev/null 2>&1' EXIT
cd $WT
PKG=$(python3 -c "import json;print(json.load(open('$SRC/meta$K.json'))['demo_pkg_dir'])" 2>/dev/null)
[ -z "$PKG" ] && PKG=$(grep -m1 -o 'copy to: *[^ ]*' $SRC/demo${K}_test.go | sed 's/copy to: *//')
PKG=${PKG%/}
git apply $SRC/patch$K.diff || { echo "$ID-$K: patch does not apply"; exit 1; }
if git diff --name-only | grep -q '_test.go'; then echo "$ID-$K: patch touches tests"; exit 1; fi
go build ./... || { echo "$ID-$K: does not compile"; exit 1; }
go test -vet=off -count=1 ./... > /tmp/vseed-$ID-$K.suite.log 2>&1; SUITE=$?
cp $SRC/demo${K}_test.go $PKG/zz_seed_demo_test.go
go test -vet=off -count=1 -run "TestSeedDemo$K\$" ./$PKG > /tmp/vseed-$ID-$K.with.log 2>&1; WITH=$?
git apply -R $SRC/patch$K.diff
go test -vet=off -count=1 -run "TestSeedDemo$K\$" ./$PKG > /tmp/vseed-$ID-$K.without.log 2>&1; WITHOUT=$?
echo "$ID-$K: suite_rc=$SUITE demo_with_patch_rc=$WITH demo_without_rc=$WITHOUT pkg=$PKG"
if [ $SUITE -eq 0 ] && [ $WITH -ne 0 ] && [ $WITHOUT -eq 0 ]; then
  D=/verif/seeded/$ID-$K; mkdir -p $D
  cp $SRC/patch$K.diff $D/patch.diff; cp $SRC/demo${K}_test.go $D/demo_test.go
  python3 - <<PY
import json
m=json.load(open('$SRC/meta$K.json'))
out={"property":"$ID","summary":m.get("summary"),"needs_to_manifest":m.get("needs"),"files":m.get("files"),"demo_pkg_dir":"$PKG",
 "confirmed_by":"tools/verify_seed.sh in a scratch worktree of /repo: patch applies+compiles; go test -vet=off -count=1 ./... passes with patch (rc=$SUITE); demo TestSeedDemo$K fails with patch (rc=$WITH) and passes without (rc=$WITHOUT)",
 "origin":"independent sub-agent given only the property text"}
json.dump(out,open('$D/meta.json','w'),indent=1)
PY
  rm -f /tmp/vseed-$ID-$K.*.log
  echo "$ID-$K: CONFIRMED"
else
  echo "$ID-$K: REJECTED (logs /tmp/vseed-$ID-$K.*.log)"
fi
