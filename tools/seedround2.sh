#!/bin/bash
# Prepares round 2 of independent seeded changes: worktree /tmp/seed2/<id> at /repo HEAD and prompt in /tmp/seedout2/<id>/.
# The prompt is derived from the round-1 prompt (property text only; nothing from /verif).
set -u
for i in $(seq -w 1 20); do
  ID=C$i
  mkdir -p /tmp/seedout2/$ID
  git -C /repo worktree add --detach /tmp/seed2/$ID >/dev/null 2>&1
  cp /tmp/seedout/$ID/property.txt /tmp/seedout2/$ID/property.txt
  sed -e "s#/tmp/seedout/#/tmp/seedout2/#g" -e "s#/tmp/seed/#/tmp/seed2/#g" \
      -e 's/For each change k (1, 2)/For each change k (3, 4)/' -e 's/patch2 must not depend on patch1/patch4 must not depend on patch3/' \
      -e 's/^Deliver TWO independent changes if you can (at least one), each using a DIFFERENT mechanism \/ code site,/Deliver TWO independent changes if you can (at least one), numbered 3 and 4, each using a DIFFERENT mechanism \/ code site and aimed at a DIFFERENT clause of the statement (read every sentence and every item of an enumeration in the statement as a separate clause; prefer the less obvious clauses and code paths - secondary output formats, web UI and interactive paths, error paths, boundary sizes, rarely combined options - over the first idea that comes to mind),/' \
      /tmp/seedout/$ID/prompt.txt > /tmp/seedout2/$ID/prompt.txt
done
git -C /repo worktree list | wc -l
