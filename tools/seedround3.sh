#!/bin/bash
# Prepares round 3 of independent seeded changes: worktree /tmp/seed3/<id> at /repo HEAD and prompt in /tmp/seedout3/<id>/.
set -u
for i in $(seq -w 1 20); do
  ID=C$i
  mkdir -p /tmp/seedout3/$ID
  git -C /repo worktree add --detach /tmp/seed3/$ID >/dev/null 2>&1
  cp /tmp/seedout/$ID/property.txt /tmp/seedout3/$ID/property.txt
  sed -e "s#/tmp/seedout/#/tmp/seedout3/#g" -e "s#/tmp/seed/#/tmp/seed3/#g" \
      -e 's/For each change k (1, 2)/For each change k (5, 6)/' -e 's/patch2 must not depend on patch1/patch6 must not depend on patch5/' \
      -e 's/^Deliver TWO independent changes if you can (at least one), each using a DIFFERENT mechanism \/ code site,/Deliver TWO independent changes if you can (at least one), numbered 5 and 6, each using a DIFFERENT mechanism \/ code site and aimed at a DIFFERENT clause of the statement (read every sentence and every item of an enumeration in the statement and in the "quantified over" text as a separate clause). Other reviewers have already tried the most obvious edits at the anchored code sites; look for the places a reviewer would not think of first: callers and helpers one step away from the anchored functions, option combinations, secondary entry points (web UI handlers, interactive commands, public API variants), error and boundary paths, state that outlives one call. Never use git stash (the stash is shared between worktrees); to toggle your change use "git diff > file; git checkout -- .; git apply file".,/' \
      /tmp/seedout/$ID/prompt.txt > /tmp/seedout3/$ID/prompt.txt
done
git -C /repo worktree list | wc -l
