#!/bin/bash
# Prepares round 7 of independent seeded changes: worktree /tmp/seed7/<id> at /repo HEAD and prompt in /tmp/seedout7/<id>/
# (the round-6 prompt with the numbering and the steering sentence replaced).
set -u
for i in $(seq -w 1 20); do
  ID=C$i
  mkdir -p /tmp/seedout7/$ID
  git -C /repo worktree add --detach /tmp/seed7/$ID >/dev/null 2>&1
  cp /tmp/seedout6/$ID/property.txt /tmp/seedout7/$ID/property.txt
  python3 - $ID <<'PY'
import sys
i=sys.argv[1]
s=open(f'/tmp/seedout6/{i}/prompt.txt').read()
s=s.replace('/tmp/seedout6/','/tmp/seedout7/').replace('/tmp/seed6/','/tmp/seed7/')
s=s.replace('(11, 12)','(13, 14)').replace('patch12 must not depend on patch11','patch14 must not depend on patch13').replace('numbered 11 and 12','numbered 13 and 14')
s=s.replace('five rounds of reviewers','six rounds of reviewers')
old='and prefer a change whose effect is only visible in the OUTPUT VALUES a user reads (a number, an ordering, a name, a unit, which entries appear) rather than in an error or a crash:'
new='and this time start from the DOCUMENTATION rather than from the code: read doc/README.md, proto/profile.proto (field comments) and the help texts in internal/driver/commands.go and config.go, pick a documented behaviour that the property statement relies on, and break it quietly for inputs at the far ends of what the statement quantifies over (no samples at all, a single sample, tens of thousands of samples, stacks hundreds of frames deep, hundreds of distinct functions, ids or addresses above 2^63, values near the int64 limits, empty names) or only when two profiles / binaries / sessions / requests are involved:'
assert old in s
s=s.replace(old,new)
open(f'/tmp/seedout7/{i}/prompt.txt','w').write(s)
PY
done
git -C /repo worktree list | wc -l
