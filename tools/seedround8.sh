#!/bin/bash
# Prepares round 8 (eight properties) of independent seeded changes: worktree /tmp/seed8/<id> at /repo HEAD, prompt in /tmp/seedout8/<id>/.
set -u
for ID in C01 C06 C08 C09 C11 C13 C14 C20; do
  mkdir -p /tmp/seedout8/$ID
  git -C /repo worktree add --detach /tmp/seed8/$ID >/dev/null 2>&1
  python3 /verif/tools/mkprompt.py $ID 15 16 /tmp/seed8/$ID /tmp/seedout8/$ID
done
git -C /repo worktree list | wc -l
