#!/bin/bash
# usage: tools/rebase_seed.sh <seed-name> '<python code editing file contents s (path p given)>' <file>
# Re-applies a seeded change by hand on the current /repo HEAD (after fix: commits), verifies suite passes + demo fails with it.
set -u
export GOFLAGS=-mod=mod GOPROXY=off GOSUMDB=off GOTOOLCHAIN=local
NAME=$1; FILE=$2; PAT=$3; REP=$4
D=/verif/seeded/$NAME
WT=/tmp/rb-$NAME-$$
git -C /repo worktree add --detach $WT >/dev/null 2>&1 || exit 3
trap 'git -C /repo worktree remove --force $WT >/dev/null 2>&1' EXIT
python3 - "$WT/$FILE" "$PAT" "$REP" <<'PY' || { echo "$NAME: pattern not found"; exit 1; }
import re,sys
f,pat,rep=sys.argv[1:4]
s=open(f).read()
n,k=re.subn(pat,rep,s,count=1,flags=re.S)
if k!=1: sys.exit(1)
open(f,'w').write(n)
PY
cd $WT
PKG=$(python3 -c "import json;print(json.load(open('$D/meta.json'))['demo_pkg_dir'])")
go build ./... || { echo "$NAME: does not compile"; exit 1; }
go test -vet=off -count=1 ./... >/tmp/rb-$NAME.log 2>&1; SUITE=$?
cp $D/demo_test.go $PKG/zz_seed_demo_test.go
go test -vet=off -count=1 -run 'TestSeedDemo' ./$PKG >/tmp/rb-$NAME.demo.log 2>&1; WITH=$?
rm $PKG/zz_seed_demo_test.go
echo "$NAME: suite_rc=$SUITE demo_with_patch_rc=$WITH"
if [ $SUITE -eq 0 ] && [ $WITH -ne 0 ]; then
  [ -f $D/patch.orig.diff ] || mv $D/patch.diff $D/patch.orig.diff
  git diff > $D/patch.diff
  python3 - <<PY
import json
p='$D/meta.json'
m=json.load(open(p)); m['rebased']="patch.diff re-applied by hand on top of the fix: commits in /repo (same edit as patch.orig.diff, the sub-agent's patch against the pinned commit); verified again: suite passes with it and the demo fails"
json.dump(m,open(p,'w'),indent=1)
PY
  echo "$NAME: REBASED"
else
  echo "$NAME: rebase REJECTED"; tail -5 /tmp/rb-$NAME.log /tmp/rb-$NAME.demo.log
fi
