#!/bin/bash
# Prepares round 6 of independent seeded changes: worktree /tmp/seed6/<id> at /repo HEAD and prompt in /tmp/seedout6/<id>/.
set -u
for i in $(seq -w 1 20); do
  ID=C$i
  mkdir -p /tmp/seedout6/$ID
  git -C /repo worktree add --detach /tmp/seed6/$ID >/dev/null 2>&1
  cp /tmp/seedout/$ID/property.txt /tmp/seedout6/$ID/property.txt
  sed -e "s#/tmp/seedout/#/tmp/seedout6/#g" -e "s#/tmp/seed/#/tmp/seed6/#g" \
      -e 's/For each change k (1, 2)/For each change k (11, 12)/' -e 's/patch2 must not depend on patch1/patch12 must not depend on patch11/' \
      -e 's/^Deliver TWO independent changes if you can (at least one), each using a DIFFERENT mechanism \/ code site,/Deliver TWO independent changes if you can (at least one), numbered 11 and 12, each using a DIFFERENT mechanism \/ code site and aimed at a DIFFERENT clause of the statement (read every sentence and every item of an enumeration in the statement and in the "quantified over" text as a separate clause). Other reviewers have already tried the most obvious edits at the anchored code sites; five rounds of reviewers have already tried edits at the anchored code sites, their direct callers and helpers, error paths, process-wide caches, boundary sizes and rarely used formats. Look elsewhere again, and prefer a change whose effect is only visible in the OUTPUT VALUES a user reads (a number, an ordering, a name, a unit, which entries appear) rather than in an error or a crash: (a) a sequence of three or more operations in one long-lived process (interactive session, web server, repeated API calls on one object) where only the third one goes wrong; (b) a combination of two things the statement mentions in different sentences; (c) the sizes 0, 1, exactly at and one past an internal limit; (d) the least used of the formats, flags, schemes or commands the statement still covers; (e) values that are legal but unusual (negative, zero, maximal, non-ASCII, empty); (f) a shared helper used by a sibling feature whose change looks local to that sibling. Never use git stash (the stash is shared between worktrees); to toggle your change use "git diff > file; git checkout -- .; git apply file".,/' \
      /tmp/seedout/$ID/prompt.txt > /tmp/seedout6/$ID/prompt.txt
done
git -C /repo worktree list | wc -l
