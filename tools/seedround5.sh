#!/bin/bash
# Prepares round 5 of independent seeded changes: worktree /tmp/seed5/<id> at /repo HEAD and prompt in /tmp/seedout5/<id>/.
set -u
for i in $(seq -w 1 20); do
  ID=C$i
  mkdir -p /tmp/seedout5/$ID
  git -C /repo worktree add --detach /tmp/seed5/$ID >/dev/null 2>&1
  cp /tmp/seedout/$ID/property.txt /tmp/seedout5/$ID/property.txt
  sed -e "s#/tmp/seedout/#/tmp/seedout5/#g" -e "s#/tmp/seed/#/tmp/seed5/#g" \
      -e 's/For each change k (1, 2)/For each change k (9, 10)/' -e 's/patch2 must not depend on patch1/patch10 must not depend on patch9/' \
      -e 's/^Deliver TWO independent changes if you can (at least one), each using a DIFFERENT mechanism \/ code site,/Deliver TWO independent changes if you can (at least one), numbered 9 and 10, each using a DIFFERENT mechanism \/ code site and aimed at a DIFFERENT clause of the statement (read every sentence and every item of an enumeration in the statement and in the "quantified over" text as a separate clause). Other reviewers have already tried the most obvious edits at the anchored code sites; several rounds of reviewers have already tried edits at the anchored code sites, their direct callers and helpers, error paths and process-wide caches. Look elsewhere again: (a) a sequence of three or more operations in one long-lived process (interactive session, web server, repeated API calls on one object) where only the third one goes wrong; (b) a combination of two things the statement mentions in different sentences; (c) the sizes 0, 1, exactly at and one past an internal limit; (d) the least used of the formats, flags, schemes or commands the statement still covers; (e) values that are legal but unusual (negative, zero, maximal, non-ASCII, empty); (f) a shared helper used by a sibling feature whose change looks local to that sibling. Never use git stash (the stash is shared between worktrees); to toggle your change use "git diff > file; git checkout -- .; git apply file".,/' \
      /tmp/seedout/$ID/prompt.txt > /tmp/seedout5/$ID/prompt.txt
done
git -C /repo worktree list | wc -l
